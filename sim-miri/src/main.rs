//! Engine *simmiri*: the parts of C13 and C15 that need the real std HashMap (real RandomState)
//! and truly concurrent threads. Run under `cargo +nightly miri run` with isolation on: the Miri
//! seed determines the thread schedule (preemption points) and the entropy that seeds every
//! RandomState, so one seed is one exactly repeatable execution; Miri also reports data races and
//! undefined behaviour. The same program run natively gives the canonical outputs.
//!
//! usage: sim-miri c13 | c15 <variant>
//! Output: one line `RESULT <mode> <hash> <detail>`; exit 1 + `MISMATCH ...` on a violation.

use solstat::analyzer::optimizations::{self, Optimization};
use solstat::analyzer::qa::{self, QualityAssurance};
use solstat::analyzer::vulnerabilities::{self, Vulnerability};
use solstat::report::optimization_report::generate_optimization_report;
use solstat::report::qa_report::generate_qa_report;
use solstat::report::vulnerability_report::generate_vulnerability_report;
use std::collections::{BTreeSet, HashMap};

fn fnv(s: &str) -> u64 {
    let mut h = 0xcbf29ce484222325u64;
    for b in s.bytes() {
        h ^= b as u64;
        h = h.wrapping_mul(0x100000001b3);
    }
    h
}

fn lines(v: &[i32]) -> BTreeSet<i32> {
    v.iter().copied().collect()
}

/// C13: one fixed findings set, rendered from two independently built std HashMaps (different
/// insertion orders, hence different internal layouts; each map instance also gets its own
/// RandomState keys). Under Miri the keys depend on the Miri seed.
fn c13(variant: usize) -> i32 {
    let opts = optimizations::get_all_optimizations();
    let vuls = vulnerabilities::get_all_vulnerabilities();
    let qas = qa::get_all_qa();
    let files = [("b.sol", vec![9, 3]), ("a.sol", vec![1]), ("x:1.sol", vec![4, 5, 6])];

    let build_o = |rev: bool| {
        let mut m: HashMap<Optimization, Vec<(String, BTreeSet<i32>)>> = HashMap::new();
        // which optimisation patterns take part depends on the variant (at most 7 of them)
        let mut ks: Vec<Optimization> = opts
            .iter()
            .copied()
            .cycle()
            .skip((variant * 5) % opts.len())
            .take(2 + variant % 6)
            .collect();
        if rev {
            ks.reverse();
        }
        for k in ks {
            let mut fs: Vec<(String, BTreeSet<i32>)> =
                files.iter().map(|(f, l)| (f.to_string(), lines(l))).collect();
            if rev {
                fs.reverse();
            }
            m.insert(k, fs);
        }
        m
    };
    let build_v = |rev: bool| {
        let mut m: HashMap<Vulnerability, Vec<(String, BTreeSet<i32>)>> = HashMap::new();
        // every non-empty subset of the vulnerability patterns occurs for some variant
        let mask = 1 + (variant % 15);
        let mut ks: Vec<Vulnerability> = vuls
            .iter()
            .copied()
            .enumerate()
            .filter(|(i, _)| mask & (1 << i) != 0)
            .map(|(_, v)| v)
            .collect();
        if rev {
            ks.reverse();
        }
        for k in ks {
            let mut fs: Vec<(String, BTreeSet<i32>)> =
                files.iter().map(|(f, l)| (f.to_string(), lines(l))).collect();
            if rev {
                fs.rotate_left(1);
            }
            m.insert(k, fs);
        }
        m
    };
    let build_q = |rev: bool| {
        let mut m: HashMap<QualityAssurance, Vec<(String, BTreeSet<i32>)>> = HashMap::new();
        let mut ks: Vec<QualityAssurance> = qas.clone();
        if rev {
            ks.reverse();
        }
        for k in ks {
            let mut fs = vec![
                ("a.sol".to_string(), lines(&[2])),
                ("A.sol".to_string(), lines(&[2])),
                ("a.sol".to_string(), lines(&[7])),
            ];
            if rev {
                fs.reverse();
            }
            m.insert(k, fs);
        }
        m
    };
    let r1 = format!(
        "{}\n\n{}\n\n{}",
        generate_vulnerability_report(build_v(false)),
        generate_optimization_report(build_o(false)),
        generate_qa_report(build_q(false))
    );
    let r2 = format!(
        "{}\n\n{}\n\n{}",
        generate_vulnerability_report(build_v(true)),
        generate_optimization_report(build_o(true)),
        generate_qa_report(build_q(true))
    );
    if r1 != r2 {
        println!("MISMATCH c13: two map instances with the same findings render differently within one process");
        return 1;
    }
    // fingerprint of the order std's HashMap really iterates in (evidence that the seed varies it)
    let order: Vec<String> = build_o(false).keys().map(|k| format!("{:?}", k)).collect();
    println!(
        "RESULT c13 {:016x} variant={} bytes={} order={:016x}",
        fnv(&r1),
        variant,
        r1.len(),
        fnv(&order.join(","))
    );
    0
}

const TEXT_A: &str = "pragma solidity ^0.8.16;\ncontract A {\n    uint256 x;\n    function f(uint256 a) public {\n        x = a + 1;\n    }\n}\n";
const TEXT_B: &str = "pragma solidity 0.7.6;\n\ncontract B {\n    uint256 private v;\n    function g(address t, address to) public {\n        IERC20(t).transfer(to, 1);\n    }\n}\n";

#[derive(Clone, Debug)]
enum Call {
    /// a pattern selected by its documented configuration name (known to have findings on the text)
    ON(&'static str),
    VN(&'static str),
    QN(&'static str),
    /// the i-th default optimisation (coverage of all detectors across variants)
    O(usize),
}

fn do_call(c: &Call, text: &str, file_no: usize) -> Vec<i32> {
    match c {
        Call::ON(n) => optimizations::analyze_for_optimization(text, file_no, optimizations::str_to_optimization(n))
            .into_iter()
            .collect(),
        Call::VN(n) => vulnerabilities::analyze_for_vulnerability(text, file_no, vulnerabilities::str_to_vulnerability(n))
            .into_iter()
            .collect(),
        Call::QN(n) => qa::analyze_for_qa(text, file_no, qa::str_to_qa(n)).into_iter().collect(),
        Call::O(i) => {
            let all = optimizations::get_all_optimizations();
            optimizations::analyze_for_optimization(text, file_no, all[i % all.len()])
                .into_iter()
                .collect()
        }
    }
}

/// C15: the same calls sequentially first, then truly concurrently from three threads; results
/// must agree. Two of the threads run patterns that are known to have findings on their text, so
/// that the whole path (parse, detector, location -> line conversion) runs concurrently; the third
/// rotates through all optimisation detectors with `variant`.
fn c15(variant: usize) -> i32 {
    let first = [Call::ON("sstore"), Call::ON("solidity_math"), Call::ON("payable_function"), Call::VN("floating_pragma")];
    let second = [Call::VN("unsafe_erc20_operation"), Call::QN("private_vars_leading_underscore"), Call::ON("payable_function")];
    let plans: Vec<Vec<(Call, &'static str, usize)>> = vec![
        vec![(first[variant % first.len()].clone(), TEXT_A, 0)],
        vec![(second[variant % second.len()].clone(), TEXT_B, 7)],
        vec![(Call::O(variant), if variant % 2 == 0 { TEXT_A } else { TEXT_B }, 256)],
    ];
    // sequential reference, in this same process
    let mut want: Vec<Vec<Vec<i32>>> = vec![];
    for p in &plans {
        want.push(p.iter().map(|(c, t, n)| do_call(c, t, *n)).collect());
    }
    if want[0][0].is_empty() || want[1][0].is_empty() {
        println!("MISMATCH c15 variant {}: a canary pattern has no finding on its text ({:?})", variant, want);
        return 1;
    }
    let mut handles = vec![];
    for p in plans.clone() {
        handles.push(std::thread::spawn(move || {
            p.iter().map(|(c, t, n)| do_call(c, t, *n)).collect::<Vec<_>>()
        }));
    }
    let mut got = vec![];
    for h in handles {
        match h.join() {
            Ok(v) => got.push(v),
            Err(_) => {
                println!("MISMATCH c15: a concurrent call panicked");
                return 1;
            }
        }
    }
    if got != want {
        println!("MISMATCH c15 variant {}: concurrent {:?} vs sequential {:?}", variant, got, want);
        return 1;
    }
    println!("RESULT c15 {:016x} variant={}", fnv(&format!("{:?}", want)), variant);
    0
}

/// C15, deep variant: four threads walk a text whose function bodies are nested `depth` levels deep,
/// truly concurrently; anything that couples the calls through shared state while they are deep
/// inside the recursive walker shows as a difference from the sequential results.
fn c15deep(depth: usize) -> i32 {
    let mut text = String::from("pragma solidity 0.8.16;\n\ncontract Deep {\n    uint256 x;\n    function f(uint256 a, uint256 b, uint256 c) public {\n");
    for d in 0..depth {
        text.push_str(&format!("        if (a > {}) {{\n", d));
    }
    text.push_str("            x = a / b * c + a * 2;\n");
    for _ in 0..depth {
        text.push_str("        }\n");
    }
    text.push_str("    }\n}\n");
    let calls = [
        Call::VN("divide_before_multiply"),
        Call::ON("shift_math"),
        Call::ON("solidity_math"),
        Call::ON("sstore"),
    ];
    let want: Vec<Vec<i32>> = calls.iter().map(|c| do_call(c, &text, 0)).collect();
    if want.iter().any(|w| w.is_empty()) {
        println!("MISMATCH c15deep: a canary pattern has no finding on the nested text ({:?})", want);
        return 1;
    }
    let text = std::sync::Arc::new(text);
    let mut handles = vec![];
    for c in calls.iter().cloned() {
        let t = text.clone();
        handles.push(
            std::thread::Builder::new()
                .stack_size(256 << 20)
                .spawn(move || do_call(&c, &t, 0))
                .expect("spawn"),
        );
    }
    let mut got = vec![];
    for h in handles {
        match h.join() {
            Ok(v) => got.push(v),
            Err(_) => {
                println!("MISMATCH c15deep: a concurrent call panicked");
                return 1;
            }
        }
    }
    if got != want {
        println!("MISMATCH c15deep depth {}: concurrent {:?} vs sequential {:?}", depth, got, want);
        return 1;
    }
    println!("RESULT c15deep {:016x} depth={}", fnv(&format!("{:?}", want)), depth);
    0
}

fn main() {
    let args: Vec<String> = std::env::args().collect();
    let code = match args.get(1).map(|s| s.as_str()) {
        Some("c13") => c13(args.get(2).and_then(|s| s.parse().ok()).unwrap_or(0)),
        Some("c15") => c15(args.get(2).and_then(|s| s.parse().ok()).unwrap_or(0)),
        Some("c15deep") => c15deep(args.get(2).and_then(|s| s.parse().ok()).unwrap_or(14)),
        _ => {
            eprintln!("usage: sim-miri c13 | c15 <variant>");
            2
        }
    };
    std::process::exit(code);
}
