#!/usr/bin/env bash
# thorough tier of the given checks (default: all), one after the other, on /repo as it stands; the evidence of each
# is kept in evidence-thorough/, and the quick evidence is written again afterwards.
cd /verif
list="${*:-C14 C11 C12 C15 C13 C18 C16 C03}"
for p in $list; do
  /usr/bin/time -f "$p thorough wall %es" ./check $p thorough > /tmp/thorough_$p.log 2>&1; echo "$p exit=$?" >> /tmp/thorough_summary.log
  tail -4 /tmp/thorough_$p.log >> /tmp/thorough_summary.log
  cp evidence/$p.json evidence-thorough/$p.json
  ./check $p quick > /tmp/q_$p.log 2>&1; echo "$p quick exit=$?" >> /tmp/thorough_summary.log
done
echo ALLDONE >> /tmp/thorough_summary.log
