#!/usr/bin/env bash
cd /verif
for p in C14 C11 C12 C15 C13 C18 C16 C03; do
  /usr/bin/time -f "$p thorough wall %es" ./check $p thorough > /tmp/thorough_$p.log 2>&1; echo "$p exit=$?" >> /tmp/thorough_summary.log
  tail -4 /tmp/thorough_$p.log >> /tmp/thorough_summary.log
  cp evidence/$p.json evidence-thorough/$p.json
done
echo ALLDONE >> /tmp/thorough_summary.log
