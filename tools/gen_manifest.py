#!/usr/bin/env python3
"""Writes /verif/MANIFEST.json. The list of claimed checks lives here so that the manifest is
regenerated, never hand-edited."""
import json, subprocess, os
ROOT = os.path.dirname(os.path.dirname(os.path.abspath(__file__)))

CLAIMED = {
 "C11": dict(level="exploration", design="§6 C11",
   text="Conservation / exactly-once check on the render stage of simulated runs: every report (end-to-end over generated trees, and synthetic findings maps) is read back and compared as a multiset of (pattern, file, line) with the findings handed to the renderer, under seeded listing and iteration orders. The input space itself is only sampled by a seeded generator; simulation contributes the orders under which each map is rendered.",
   note="Trusted base: 30-row table configuration name -> module with the section text; parse-back convention (lists after '### Lines', split at last ':'). Findings maps restricted to shapes analyze_dir can produce.",
   technique="deterministic simulation of the render stage under seeded iteration/listing orders with a parse-back conservation oracle",
   engine="simproc+simbin"),
 "C12": dict(level="exploration", design="§6 C12",
   text="Same simulated runs as C11, judged for totals, category parts and severity headings; plus the complete sub-space 16 vulnerability-pattern subsets x 24 iteration orders x 2 multiplicity shapes (768 cases, enumerated). Everything outside that sub-space is seeded sampling.",
   note="Trusted base: severity of the four vulnerability patterns (from the property text), the markers '(Total Optimizations N)' / '(Total Vulnerabilities N)' and the three '## <Severity> Risk' lines.",
   technique="deterministic simulation of the render stage under every iteration order of the vulnerability map (exhaustive sub-space) plus seeded runs, invariant on totals/headings",
   engine="simproc+simbin"),
 "C13": dict(level="exploration", design="§6 C13",
   text="Groups of executions that must agree byte for byte: one tree and pattern set under 6 schedules differing in listing permutation, iteration permutation and configured pattern order; the same configured names (also repeated) in permuted order through the real option parser; one findings set built and iterated in 6 different orders; the real binary on copies of one tree at different locations under different simulated clocks and process environments; the real std HashMap under Miri seeds. Seeded search over schedules; a clean batch is evidence, not proof.",
   note="SeamMap replaces the real RandomState by seeded permutations (all orders the HashMap contract allows); detector-local hash containers are not under the seed natively (audited order-insensitive).",
   technique="deterministic simulation: seeded search over listing/iteration/configuration-order schedules, simulated clock and environment for the real binary, Miri-seeded RandomState; byte-equality of reports across schedules of the same content",
   engine="simproc+simbin+simmiri"),
 "C14": dict(level="exploration", design="§6 C14",
   text="Complete table check over every documented name (read from the repository's docs and sample toml at run time) x 6 casings (acceptance, casing-independence, distinctness, default membership, selectability of every default, junk rejection, name->detector behaviour signature), plus seeded simulated process runs through the real Opts::new (clap on a simulated argv, toml file in the simulated world) judged by a small reference model of the flag/file/default resolution, by the findings (as a set, equal to the direct per-file results of exactly the listed patterns over the selected directory) and by the journal (unknown name => non-zero status before any write).",
   note="Trusted base: table configuration name -> detector function; generated toml files always carry all four keys; runs whose selected directory does not exist are not judged; main()'s five lines are mirrored by the driver (simbin runs the real main).",
   technique="deterministic simulation of the process environment (argv, cwd, files present, exit status, effect ordering in the journal) against a reference model of option resolution; complete enumeration of the documented-name table",
   engine="simproc+simbin"),
 "C15": dict(level="exploration", design="§6 C15",
   text="Seeded histories of library calls compared with a fresh-process baseline: chains of 10 (every eighth: 80) scenarios run without reset in one child process; a scenario is 2-5 tasks on real OS threads of which exactly one runs at a time -- at call granularity (baton order is data) or, in a third of the scenarios, interleaved at guarded yield points inside the AST walker, the line conversion and the simulated file-system calls with a seeded switch probability. Operations: direct per-file calls with arbitrary file numbers, repeated calls, directory walks embedding the same texts among varying siblings (also siblings sharing a bare name), equal-length twins, texts nested 32 levels deep, files whose contracts repeat each other's names, white-space-only placeholder siblings. Every observed verdict must equal the verdict of one call in a fresh process. Miri adds truly concurrent calls with data-race detection.",
   note="Call-granular interleaving (one thread runs at a time) natively; preemptive interleaving, data races and seeded RandomState only in the simmiri tier. Baseline trusts a single call in a fresh process.",
   technique="deterministic simulation: seeded baton scheduling of real threads down to yield points inside library calls, differential oracle against a fresh-process single-call baseline, Miri-seeded preemptive schedules",
   engine="simproc+simbin+simmiri"),
 "C16": dict(level="fault_enumeration", design="§6 C16",
   text="Differential simulation: the same walk with and without the inert files under the same schedule must agree and must not fail; every inert file carries a fault (invalid UTF-8, unparseable text, findings-stuffed valid Solidity, read->EIO, read->EACCES) so that touching it is consequential. The name-class x content-class x depth cross product is enumerated completely in every tier; tree shapes, random valid-Unicode names and schedules around it are seeded samples.",
   note="Valid-Unicode names only; names with '.t.sol' in the middle not generated; read_dir failures and vanishing files not injected (property silent).",
   technique="deterministic simulation with enumerated read/content faults on inert files, differential oracle against the same world without them, plus independent-walk reference model",
   engine="simproc+simbin"),
 "C18": dict(level="exploration", design="§6 C18",
   text="Histories of 1-4 simulated process runs on an evolving in-memory world with four working-directory placements and six stale-report variants; after every run (successful or failed) the world may differ only in <cwd>/solstat_report.md, a successful run leaves it, and its bytes equal those of the identical run without the stale report.",
   note="State-based verdict (write-temp-then-rename would pass); fully-qualified std::fs calls bypass the in-memory Env (simbin tier snapshots a real scratch tree); report write failures not injected.",
   technique="deterministic simulation of run histories over a simulated file system with before/after state snapshots and a differential stale-report oracle",
   engine="simproc+simbin"),
 "C03": dict(level="exploration", design="§6 C03",
   text="Seeded simulation of the real directory walkers over in-memory trees (random valid-Unicode names, case-variant and equal-length siblings, directories with >256 entries, chains up to 90 levels, files of 1 MB / 65 000+ lines) under adversarial listing orders, judged against an independent walk that calls the real per-file function on every eligible file (exact multiset equality). One small sub-space (2-3 files over four directories, every listing order) is enumerated completely. The real binary repeats the comparison on real scratch trees and must agree byte for byte with the in-process engine. Sampling, not proof.",
   note="Trusts the per-file functions as their own oracle; std::fs is replaced by the in-memory Env behind the cfg seam (simbin tier runs the real binary on a real scratch tree); eligible files are screened valid inputs.",
   technique="deterministic simulation: seeded listing-order/pattern-order schedules over a simulated file system, reference-model (independent walk) oracle, minimised replay files",
   engine="simproc+simbin"),
}

PENDING = {k: "check designed (DESIGN §6) but not yet built in this session; not claimed until its command exists" for k in ["C11","C12","C13","C14","C15","C16","C18"] if k not in CLAIMED}

NA = {
 "C01": "pure function of (parse tree, kind set): no I/O, clock, thread or observable hash-order on its path, so a simulator has no schedule or fault to vary; deciding it is tree-shape enumeration, another technique (DESIGN §7)",
 "C02": "offset->line is a pure function of (text, offset) and the reported node a pure function of the tree; nothing environmental to simulate (DESIGN §7)",
 "C04": "totality of pure per-file functions over the input language (and a build flag); a crash here is found by input generation, not by scheduling or fault injection (DESIGN §7)",
 "C05": "detector-flags-exactly-its-pattern is a statement about one pure function applied to one text; the simulator uses that function as a black-box oracle and has no independent Solidity semantics (DESIGN §7)",
 "C06": "same as C05: per-file pattern semantics of a pure function, no schedule/fault/interleaving in it (DESIGN §7)",
 "C07": "same as C05: per-file pattern semantics of a pure function, no schedule/fault/interleaving in it (DESIGN §7)",
 "C08": "same as C05: per-file pattern semantics of a pure function, no schedule/fault/interleaving in it (DESIGN §7)",
 "C09": "version gating is a pure function of the pragma string and the body over a finite ordered domain; better enumerated than scheduled (DESIGN §7)",
 "C10": "slot counting and the two-ordering comparison are integer arithmetic on a sequence; no environment involved (DESIGN §7)",
 "C17": "metamorphic relation between two layouts of one text, decided by two pure calls; no nondeterminism or fault to inject (DESIGN §7)",
 "C19": "decomposition relation on one text (whole file vs each top-level item), decided by pure calls; the interference is between parts of one input, not between concurrent or successive activities (DESIGN §7)",
}

def main():
    src = subprocess.run(["git","-C","/repo","log","--format=%H %s"],capture_output=True,text=True).stdout.splitlines()
    hooks = [l.split()[0] for l in src if "verif hooks" in l]
    checks=[]
    for pid,c in sorted(CLAIMED.items()):
        checks.append({
          "property_id": pid,
          "quick_cmd": f"./check {pid} quick",
          "thorough_cmd": f"./check {pid} thorough",
          "evidence_file": f"/verif/evidence/{pid}.json",
          "replay_cmd_template": f"./check {pid} --replay {{path}}",
          "engine": c["engine"],
          "level_claimed": {"category": c["level"], "text": c["text"], "design_ref": c["design"]},
          "level_note": c["note"],
          "technique": c["technique"],
        })
    na=[{"property_id":k,"reason":v} for k,v in sorted(NA.items())]
    na+=[{"property_id":k,"reason":v} for k,v in sorted(PENDING.items())]
    m={
      "version":1,
      "setup_cmd":"./check setup",
      "hooks":{
        "guard":"--cfg solstat_verif",
        "enable":"RUSTFLAGS='--cfg solstat_verif' (set in /verif/sim/.cargo/config.toml and by ./check for the guarded solstat binary); the simulator crate depends on solstat by path (/repo), so every check rebuilds from the working tree",
        "baseline_off_cmd":"cd /repo && cargo test --workspace --no-fail-fast --offline",
        "source_commits":hooks,
        "add_only":True,
      },
      "engines":[
        {"name":"simproc","path":"/verif/sim","serves_properties":sorted(CLAIMED.keys()),
         "kind_free_text":"in-process deterministic simulator: solstat's real option parser, directory walkers, detectors and report renderers run against an in-memory file system, seeded listing/iteration/pattern orders, injected read faults, simulated argv/exit, baton-scheduled threads with seeded switching at guarded yield points; every run is a pure function of an explicit scenario file"},
        {"name":"simbin","path":"/verif/sim/src/simbin.rs","serves_properties":sorted(CLAIMED.keys()),
         "kind_free_text":"the real solstat binary built from the working tree with the guard, one child process per run on a real scratch tree; listing order, iteration order, wall clock (LD_PRELOAD interposer /verif/simclock/fakeclock.c), location of the tree and process environment are functions of the run's seed; runs inside every check after the simproc streams"},
        {"name":"simmiri","path":"/verif/sim-miri","serves_properties":["C13","C15"],
         "kind_free_text":"solstat's library under Miri (isolation on): real std HashMap/RandomState and real concurrent threads; the Miri seed fixes the thread schedule and the OS entropy; data-race and UB detection; outputs compared across seeds and with the native run"},
      ],
      "checks":checks,
      "not_applicable":sorted(na,key=lambda x:x["property_id"]),
      "notes":"Technique family: deterministic simulation with fault injection. See DESIGN.md §2 for the rule that separates simulation targets from pure-function properties.",
    }
    json.dump(m,open(os.path.join(ROOT,"MANIFEST.json"),"w"),indent=1)
    print("claimed",sorted(CLAIMED), "n/a", len(na))
if __name__=="__main__":
    main()
