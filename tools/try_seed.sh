#!/usr/bin/env bash
# apply a seeded change to /repo, run the quick checks of the given properties, undo the change.
patch="$1"; shift
cd /repo || exit 2
if [ -n "$(git status --porcelain)" ]; then echo "/repo not clean"; exit 2; fi
git apply "$patch" || { echo "patch does not apply"; exit 2; }
trap 'git -C /repo checkout -- . ; git -C /repo clean -fdq' EXIT
cd /verif
for id in "$@"; do
  echo "---- $id"
  ./check "$id" "${TIER:-quick}" 2>&1 | grep -E "VIOLATION|violation clause|HARNESS|KNOWN|^\[C..\]   " | cut -c1-400
  echo "exit=${PIPESTATUS[0]}"
done
