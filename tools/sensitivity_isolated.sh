#!/usr/bin/env bash
# Runs the sensitivity proof against private copies of the repository and of /verif, so that /repo and
# /verif stay untouched and usable meanwhile. Results are copied back to /verif/sensitivity/RESULTS.tsv.
set -u
R=/tmp/wt/sens-repo; V=/tmp/verif-sens
rm -rf "$V"; git -C /repo worktree remove --force "$R" 2>/dev/null; git -C /repo worktree add --detach "$R" HEAD >/dev/null 2>&1 || exit 2
mkdir -p "$V" && rsync -a --exclude target --exclude replays --exclude .git /verif/ "$V"/
sed -i "s#path = \"/repo\"#path = \"$R\"#" "$V/sim/Cargo.toml" "$V/sim-miri/Cargo.toml"
sed -i "s#/verif/target#$V/target#" "$V/sim/.cargo/config.toml" "$V/sim-miri/.cargo/config.toml"
export SOLSTAT_REPO="$R"
cd "$V" || exit 2
out="$V/sensitivity/RESULTS.tsv"; : > "$out"
./check setup >/dev/null 2>&1
for d in sensitivity/${1:-}*.diff; do
  name=$(basename "$d" .diff)
  expect=$(cat "sensitivity/$name.expect")
  git -C "$R" apply "$V/$d" || { echo -e "$name\tPATCH-DOES-NOT-APPLY" >> "$out"; continue; }
  tests=$(cd "$R" && cargo test --workspace --no-fail-fast --offline 2>&1 | grep -c "^test result: ok. 35 passed")
  if [ -z "$expect" ]; then run="C03 C11 C12 C13 C14 C15 C16 C18"; else run="$expect"; fi
  fired=""; errs=""
  for id in $run; do
    if [ "$name" = "c15-static-mut-scratch-race" ] || [ -z "$expect" ]; then unset VERIF_SKIP_MIRI; else export VERIF_SKIP_MIRI=1; fi
    ./check "$id" quick > /tmp/sens_$id.log 2>&1; rc=$?
    if [ $rc -eq 1 ]; then fired="$fired $id:$(grep -m1 -o 'clause=[a-z_0-9]*' /tmp/sens_$id.log | cut -d= -f2)"; fi
    if [ $rc -ge 2 ]; then errs="$errs $id:exit$rc"; fi
  done
  git -C "$R" checkout -- .
  verdict=OK
  for id in $expect; do case "$fired" in *"$id:"*) ;; *) verdict=MISSED;; esac; done
  if [ -z "$expect" ] && [ -n "$fired$errs" ]; then verdict=FALSE-ALARM; fi
  echo -e "$name\ttests_ok=$tests/2\texpected=[$expect]\tfired=[$fired ]\terrors=[$errs ]\t$verdict" >> "$out"
  cp "$out" /verif/sensitivity/RESULTS.tsv
done
git -C /repo worktree remove --force "$R"
rm -rf "$V"
echo finished >> /verif/sensitivity/run.log
