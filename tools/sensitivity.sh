#!/usr/bin/env bash
# Sensitivity proof: apply each hand-written breaking (or harmless) change of /verif/sensitivity to /repo,
# confirm the 70 tests still pass, run the quick checks and record which of them raise an alarm.
# usage: tools/sensitivity.sh [name-prefix]
cd /verif || exit 2
out=/verif/sensitivity/RESULTS.tsv
[ -n "${1:-}" ] || : > "$out"
if [ -n "$(git -C /repo status --porcelain)" ]; then echo "/repo not clean"; exit 2; fi
for d in sensitivity/${1:-}*.diff; do
  name=$(basename "$d" .diff)
  expect=$(cat "sensitivity/$name.expect")
  git -C /repo apply "/verif/$d" || { echo -e "$name\tPATCH-DOES-NOT-APPLY" >> "$out"; continue; }
  tests=$(cd /repo && cargo test --workspace --no-fail-fast --offline 2>&1 | grep -c "^test result: ok. 35 passed")
  if [ -z "$expect" ]; then run="C03 C11 C12 C13 C14 C15 C16 C18"; else run="$expect"; fi
  fired=""; errs=""
  for id in $run; do
    if [ "$name" = "c15-static-mut-scratch-race" ] || [ -z "$expect" ]; then unset VERIF_SKIP_MIRI; else export VERIF_SKIP_MIRI=1; fi
    ./check "$id" quick > /tmp/sens_$id.log 2>&1; rc=$?
    if [ $rc -eq 1 ]; then fired="$fired $id:$(grep -m1 -o 'clause=[a-z_0-9]*' /tmp/sens_$id.log | cut -d= -f2)"; fi
    if [ $rc -ge 2 ]; then errs="$errs $id:exit$rc"; fi
  done
  git -C /repo checkout -- . 
  verdict=OK
  for id in $expect; do case "$fired" in *"$id:"*) ;; *) verdict=MISSED;; esac; done
  if [ -z "$expect" ] && [ -n "$fired$errs" ]; then verdict=FALSE-ALARM; fi
  echo -e "$name\ttests_ok=$tests/2\texpected=[$expect]\tfired=[$fired ]\terrors=[$errs ]\t$verdict" | tee -a "$out"
done
unset VERIF_SKIP_MIRI
git -C /repo status --porcelain
