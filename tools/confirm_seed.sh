#!/usr/bin/env bash
# confirm a sub-agent's seeded change in its scratch worktree: tests pass with it, guarded build ok,
# demo fails with it and passes without it. Leaves the patch applied and removes build output.
wt="$1"; log="$wt/_out/confirm.log"
cd "$wt" || exit 2
{
  echo "== worktree $wt"
  if git apply --check -R _out/patch.diff 2>/dev/null; then echo "patch is applied"; else echo "patch NOT applied; applying"; git apply _out/patch.diff || { echo "APPLY FAILED"; exit 2; }; fi
  echo "== cargo test (patch applied)"
  cargo test --workspace --no-fail-fast --offline 2>&1 | grep -E "^test result|^error" 
  echo "== guarded build"
  RUSTFLAGS="--cfg solstat_verif" cargo build --offline --target-dir "$wt/target/guard" 2>&1 | grep -E "^error|Finished" | head -5
  echo "== demo with patch (expect non-zero)"
  timeout 1200 bash _out/demo.sh "$wt" >/tmp/$(basename $wt).demo1.log 2>&1; echo "demo_with_patch_exit=$?"
  tail -5 /tmp/$(basename $wt).demo1.log
  git apply -R _out/patch.diff || { echo "REVERT FAILED"; exit 2; }
  echo "== demo without patch (expect 0)"
  timeout 1200 bash _out/demo.sh "$wt" >/tmp/$(basename $wt).demo0.log 2>&1; echo "demo_without_patch_exit=$?"
  tail -3 /tmp/$(basename $wt).demo0.log
  git apply _out/patch.diff
  rm -rf "$wt/target"
  echo "== done"
} >"$log" 2>&1
