#!/usr/bin/env bash
# Regression of the machinery itself: every hand-written sensitivity change (/verif/sensitivity/*.diff) and every
# seeded change from independent sub-agents (/verif/seeded/*/patch.diff) is applied to a PRIVATE copy of the
# repository, the 70 tests are run, and the quick checks of the expected properties (all eight for a harmless
# change) are run from a PRIVATE copy of /verif. /repo and /verif themselves are not touched.
# Results: /verif/sensitivity/RESULTS.tsv and /verif/seeded/RESULTS.tsv.   usage: tools/regression_isolated.sh [sens|seeds|all]
set -u
what="${1:-all}"
TAG="${REGR_TAG:-}"; FILTER="${REGR_FILTER:-.}"   # REGR_TAG: run several shards side by side; REGR_FILTER: regex on item names
R=/tmp/wt/regr-repo$TAG; V=/tmp/verif-regr$TAG
rm -rf "$V"; git -C /repo worktree remove --force "$R" 2>/dev/null; git -C /repo worktree prune
git -C /repo worktree add --detach "$R" HEAD >/dev/null 2>&1 || exit 2
mkdir -p "$V" && rsync -a --exclude target --exclude replays --exclude .git /verif/ "$V"/
sed -i "s#path = \"/repo\"#path = \"$R\"#" "$V/sim/Cargo.toml" "$V/sim-miri/Cargo.toml"
sed -i "s#/verif/target#$V/target#" "$V/sim/.cargo/config.toml" "$V/sim-miri/.cargo/config.toml"
export SOLSTAT_REPO="$R"
cd "$V" || exit 2
./check setup >/dev/null 2>&1
run_one() {  # name diff expect out miri(0/1)
  local name="$1" d="$2" expect="$3" out="$4" miri="$5"
  if [ -n "${REGR_ONLY:-}" ] && [ -n "$expect" ]; then  # nothing to re-run for this item: skip it before touching the copy
    local any=""; for id in $expect; do case " $REGR_ONLY " in *" $id "*) any=1;; esac; done
    [ -z "$any" ] && return
  fi
  git -C "$R" apply "$d" 2>/dev/null || (cd "$R" && patch -p1 --fuzz=3 -s < "$d") || { echo -e "$name\tPATCH-DOES-NOT-APPLY" >> "$out"; git -C "$R" checkout -- .; return; }
  local tests; tests=$(cd "$R" && cargo test --workspace --no-fail-fast --offline 2>&1 | grep "^test result" | awk '/: ok\./ {ok++} /FAILED/ {bad++} END {if (bad>0) print "FAILED"; else if (ok>=2) print "2"; else print ok+0}')
  local run fired="" errs=""
  if [ -z "$expect" ]; then run="C03 C11 C12 C13 C14 C15 C16 C18"; else run="$expect"; fi
  if [ -n "${REGR_ONLY:-}" ]; then  # re-run after a change to the machinery of some properties only
    local keep=""; for id in $run; do case " $REGR_ONLY " in *" $id "*) keep="$keep $id";; esac; done
    run="$keep"; [ -n "$expect" ] && expect="$(echo $keep)"
    if [ -z "$(echo $run)" ]; then git -C "$R" checkout -- . ; git -C "$R" clean -fdq; return; fi
  fi
  for id in $run; do
    if [ "$miri" = 1 ] || [ -z "$expect" ]; then unset VERIF_SKIP_MIRI; else export VERIF_SKIP_MIRI=1; fi
    ./check "$id" quick > /tmp/regr${TAG}_$id.log 2>&1; local rc=$?
    if [ $rc -eq 1 ]; then fired="$fired $id:$(grep -o 'clause=[a-z_0-9]*' /tmp/regr${TAG}_$id.log | cut -d= -f2 | sort -u | tr '\n' ',' )"; fi
    if [ $rc -ge 2 ]; then errs="$errs $id:exit$rc"; fi
  done
  git -C "$R" checkout -- . ; git -C "$R" clean -fdq
  local verdict=OK
  for id in $expect; do case "$fired" in *"$id:"*) ;; *) verdict=MISSED;; esac; done
  if [ -z "$expect" ] && [ -n "$fired$errs" ]; then verdict=FALSE-ALARM; fi
  echo -e "$name\ttests_ok=$tests/2\texpected=[$expect]\tfired=[$fired ]\terrors=[$errs ]\t$verdict" >> "$out"
}
if [ "$what" = sens ] || [ "$what" = all ]; then
  out="$V/sensitivity/RESULTS.tsv"; : > "$out"
  for d in sensitivity/*.diff; do
    name=$(basename "$d" .diff); expect=$(cat "sensitivity/$name.expect")
    echo "$name" | grep -Eq "$FILTER" || continue
    miri=0; [ "$name" = "c15-static-mut-scratch-race" ] && miri=1
    run_one "$name" "$V/$d" "$expect" "$out" "$miri"; cp "$out" /verif/sensitivity/RESULTS$TAG.tsv
  done
fi
if [ "$what" = seeds ] || [ "$what" = all ]; then
  out="$V/seeded/RESULTS.tsv"; : > "$out"
  for m in seeded/*/meta.json; do
    dir=$(dirname "$m"); name=$(basename "$dir")
    echo "$name" | grep -Eq "$FILTER" || continue
    expect=$(python3 -c "import json;print(' '.join(json.load(open('$m'))['caught_by'].keys()))")
    d="$V/$dir/patch.diff"; [ -f "$V/$dir/patch.rebased.diff" ] && d="$V/$dir/patch.rebased.diff"
    miri=0; case "$expect" in *C13*|*C15*) miri=1;; esac
    run_one "$name" "$d" "$expect" "$out" "$miri"; cp "$out" /verif/seeded/RESULTS$TAG.tsv
  done
fi
git -C /repo worktree remove --force "$R"; rm -rf "$V"
echo "finished $what" >> /verif/sensitivity/run.log
