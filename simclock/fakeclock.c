/* Clock seam for the simbin engine: an LD_PRELOAD interposer that shifts every wall-clock and
 * monotonic reading of the child process by SOLSTAT_VERIF_CLOCK_OFFSET seconds. solstat reads no
 * clock today; the seam exists so that a change which starts to (a timestamp in the report, a
 * time-based cache) is exercised under different simulated times. Off unless the variable is set. */
#define _GNU_SOURCE
#include <dlfcn.h>
#include <stdlib.h>
#include <sys/time.h>
#include <time.h>

static long long offset_s(void) {
    const char *s = getenv("SOLSTAT_VERIF_CLOCK_OFFSET");
    return s ? atoll(s) : 0;
}

int clock_gettime(clockid_t id, struct timespec *ts) {
    static int (*real)(clockid_t, struct timespec *);
    if (!real) real = (int (*)(clockid_t, struct timespec *))dlsym(RTLD_NEXT, "clock_gettime");
    int r = real(id, ts);
    if (r == 0 && id != CLOCK_PROCESS_CPUTIME_ID && id != CLOCK_THREAD_CPUTIME_ID) ts->tv_sec += offset_s();
    return r;
}

int gettimeofday(struct timeval *tv, void *tz) {
    static int (*real)(struct timeval *, void *);
    if (!real) real = (int (*)(struct timeval *, void *))dlsym(RTLD_NEXT, "gettimeofday");
    int r = real(tv, tz);
    if (r == 0 && tv) tv->tv_sec += offset_s();
    return r;
}

time_t time(time_t *t) {
    static time_t (*real)(time_t *);
    if (!real) real = (time_t(*)(time_t *))dlsym(RTLD_NEXT, "time");
    time_t v = real(NULL) + (time_t)offset_s();
    if (t) *t = v;
    return v;
}
