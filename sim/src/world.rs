//! The simulated file system: an in-memory tree with a working directory. Files hold bytes (not
//! necessarily UTF-8) and optionally a read fault.

use serde_json::{json, Value};
use std::collections::BTreeMap;
use std::path::{Component, Path};

#[derive(Clone, Copy, Debug, PartialEq, Eq, Hash, PartialOrd, Ord)]
pub enum Fault {
    None,
    /// read fails with an I/O error
    Eio,
    /// read fails with permission denied
    Eacces,
}

impl Fault {
    pub fn name(&self) -> &'static str {
        match self {
            Fault::None => "none",
            Fault::Eio => "EIO",
            Fault::Eacces => "EACCES",
        }
    }
    pub fn from_name(s: &str) -> Fault {
        match s {
            "EIO" => Fault::Eio,
            "EACCES" => Fault::Eacces,
            _ => Fault::None,
        }
    }
}

#[derive(Clone, Debug, PartialEq, Eq, Hash)]
pub enum Node {
    Dir,
    File { bytes: Vec<u8>, fault: Fault },
}

#[derive(Clone, Debug, PartialEq, Eq, Hash)]
pub struct World {
    /// absolute, normalised, '/'-separated path -> node. "/" is implicit.
    pub nodes: BTreeMap<String, Node>,
    pub cwd: String,
}

pub fn normalize(cwd: &str, p: &Path) -> String {
    let mut parts: Vec<String> = vec![];
    let abs = p.is_absolute();
    if !abs {
        for c in cwd.split('/') {
            if !c.is_empty() {
                parts.push(c.to_string());
            }
        }
    }
    for c in p.components() {
        match c {
            Component::RootDir | Component::Prefix(_) => {}
            Component::CurDir => {}
            Component::ParentDir => {
                parts.pop();
            }
            Component::Normal(s) => parts.push(s.to_string_lossy().into_owned()),
        }
    }
    format!("/{}", parts.join("/"))
}

pub fn parent_of(path: &str) -> String {
    match path.rfind('/') {
        Some(0) | None => "/".to_string(),
        Some(i) => path[..i].to_string(),
    }
}

pub fn base_name(path: &str) -> &str {
    match path.rfind('/') {
        Some(i) => &path[i + 1..],
        None => path,
    }
}

pub fn join(dir: &str, name: &str) -> String {
    if dir == "/" {
        format!("/{}", name)
    } else {
        format!("{}/{}", dir, name)
    }
}

impl World {
    pub fn new(cwd: &str) -> World {
        let mut w = World {
            nodes: BTreeMap::new(),
            cwd: cwd.to_string(),
        };
        w.mkdir_p(cwd);
        w
    }

    pub fn resolve(&self, p: &Path) -> String {
        normalize(&self.cwd, p)
    }

    pub fn mkdir_p(&mut self, path: &str) {
        let mut cur = String::new();
        for c in path.split('/') {
            if c.is_empty() {
                continue;
            }
            cur.push('/');
            cur.push_str(c);
            // a world is always a consistent tree: an ancestor that was a file becomes a directory
            match self.nodes.get(&cur) {
                Some(Node::Dir) => {}
                _ => {
                    self.nodes.insert(cur.clone(), Node::Dir);
                }
            }
        }
    }

    pub fn put_file(&mut self, path: &str, bytes: Vec<u8>, fault: Fault) {
        self.mkdir_p(&parent_of(path));
        if self.is_dir(path) {
            self.remove_tree(path);
        }
        self.nodes
            .insert(path.to_string(), Node::File { bytes, fault });
    }

    pub fn is_dir(&self, path: &str) -> bool {
        path == "/" || matches!(self.nodes.get(path), Some(Node::Dir))
    }

    pub fn is_file(&self, path: &str) -> bool {
        matches!(self.nodes.get(path), Some(Node::File { .. }))
    }

    pub fn file(&self, path: &str) -> Option<(&Vec<u8>, Fault)> {
        match self.nodes.get(path) {
            Some(Node::File { bytes, fault }) => Some((bytes, *fault)),
            _ => None,
        }
    }

    /// names of the direct children of `dir`, sorted
    pub fn children(&self, dir: &str) -> Vec<String> {
        let prefix = if dir == "/" {
            "/".to_string()
        } else {
            format!("{}/", dir)
        };
        self.nodes
            .range(prefix.clone()..)
            .take_while(|(k, _)| k.starts_with(&prefix))
            .filter(|(k, _)| !k[prefix.len()..].contains('/') && !k[prefix.len()..].is_empty())
            .map(|(k, _)| k[prefix.len()..].to_string())
            .collect()
    }

    /// remove a node and everything beneath it
    pub fn remove_tree(&mut self, path: &str) {
        let prefix = format!("{}/", path);
        let keys: Vec<String> = self
            .nodes
            .keys()
            .filter(|k| *k == path || k.starts_with(&prefix))
            .cloned()
            .collect();
        for k in keys {
            self.nodes.remove(&k);
        }
    }

    /// all file paths (sorted)
    pub fn files(&self) -> Vec<String> {
        self.nodes
            .iter()
            .filter(|(_, n)| matches!(n, Node::File { .. }))
            .map(|(k, _)| k.clone())
            .collect()
    }

    pub fn dirs(&self) -> Vec<String> {
        self.nodes
            .iter()
            .filter(|(_, n)| matches!(n, Node::Dir))
            .map(|(k, _)| k.clone())
            .collect()
    }

    /// Paths whose node differs between `self` and `other` (created, removed or changed).
    pub fn diff(&self, other: &World) -> Vec<String> {
        let mut out = vec![];
        for (k, v) in &self.nodes {
            match other.nodes.get(k) {
                Some(o) if o == v => {}
                _ => out.push(k.clone()),
            }
        }
        for k in other.nodes.keys() {
            if !self.nodes.contains_key(k) {
                out.push(k.clone());
            }
        }
        out.sort();
        out.dedup();
        out
    }

    pub fn to_json(&self) -> Value {
        let mut nodes = vec![];
        for (k, n) in &self.nodes {
            match n {
                Node::Dir => nodes.push(json!({"path": k, "kind": "dir"})),
                Node::File { bytes, fault } => {
                    let mut o = json!({"path": k, "kind": "file"});
                    match std::str::from_utf8(bytes) {
                        Ok(s) => o["text"] = json!(s),
                        Err(_) => o["hex"] = json!(hex(bytes)),
                    }
                    if *fault != Fault::None {
                        o["read_fault"] = json!(fault.name());
                    }
                    nodes.push(o);
                }
            }
        }
        json!({"cwd": self.cwd, "nodes": nodes})
    }

    pub fn from_json(v: &Value) -> Result<World, String> {
        let cwd = v["cwd"].as_str().ok_or("world.cwd")?.to_string();
        let mut w = World {
            nodes: BTreeMap::new(),
            cwd: cwd.clone(),
        };
        w.mkdir_p(&cwd);
        for n in v["nodes"].as_array().ok_or("world.nodes")? {
            let path = n["path"].as_str().ok_or("node.path")?;
            match n["kind"].as_str() {
                Some("dir") => w.mkdir_p(path),
                Some("file") => {
                    let bytes = if let Some(t) = n["text"].as_str() {
                        t.as_bytes().to_vec()
                    } else if let Some(h) = n["hex"].as_str() {
                        unhex(h)?
                    } else {
                        vec![]
                    };
                    let fault = Fault::from_name(n["read_fault"].as_str().unwrap_or("none"));
                    w.put_file(path, bytes, fault);
                }
                _ => return Err("node.kind".into()),
            }
        }
        Ok(w)
    }

    /// A compact human-readable listing (for evidence samples).
    pub fn listing(&self) -> Vec<String> {
        self.nodes
            .iter()
            .map(|(k, n)| match n {
                Node::Dir => format!("{}/", k),
                Node::File { bytes, fault } => {
                    if *fault == Fault::None {
                        format!("{} ({} bytes)", k, bytes.len())
                    } else {
                        format!("{} ({} bytes, read->{})", k, bytes.len(), fault.name())
                    }
                }
            })
            .collect()
    }
}

pub fn hex(b: &[u8]) -> String {
    let mut s = String::with_capacity(b.len() * 2);
    for x in b {
        s.push_str(&format!("{:02x}", x));
    }
    s
}

pub fn unhex(s: &str) -> Result<Vec<u8>, String> {
    if s.len() % 2 != 0 {
        return Err("odd hex".into());
    }
    (0..s.len())
        .step_by(2)
        .map(|i| u8::from_str_radix(&s[i..i + 2], 16).map_err(|e| e.to_string()))
        .collect()
}
