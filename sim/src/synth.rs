//! Synthetic findings maps handed straight to the renderers (through the real `generate_report`).

use crate::pats::{Cat, Entry, Flat, Maps, Pat, CATS};
use crate::report::{pats_of, Tables};
use crate::rng::Rng;
use crate::simenv::{with_env, Abort, Ev, OrderPolicy, Schedule, SimEnv};
use crate::world::World;
use serde_json::{json, Value};
use solstat::report::generation::generate_report;
use std::collections::HashMap;

pub const FILE_NAMES: &[&str] = &[
    "a.sol",
    "b.sol",
    "Token.sol",
    "my token.sol",
    "x:1.sol",
    "\u{fc}n\u{ef}.sol",
    ".sol",
    "A.b.sol",
    "9.sol",
    "z-last.sol",
    "- dash.sol",
    "### Lines.sol",
    "a.sol:5",
    " lead and trail .sol",
    "tab\there.sol",
    "my_token.sol",
    "R&D.sol",
    "a&amp;b.sol",
    "Vault<T>.sol",
    "a*b.sol",
    "p|q.sol",
    "`tick`.sol",
    "<x>.sol",
    "[1](2).sol",
    "back\\slash.sol",
    "#hash.sol",
    "~tilde~.sol",
    "## Low Risk.sol",
];

/// One synthetic findings map as an ordered list: the order is the order in which entries are
/// pushed into the `Vec` of their pattern (the "discovery order").
#[derive(Clone, Debug, PartialEq, Eq)]
pub struct Synth {
    pub entries: Vec<(Pat, String, Vec<i32>)>,
    pub iteration: OrderPolicy,
}

pub fn gen_entries(rng: &mut Rng, t: &Tables) -> Vec<(Pat, String, Vec<i32>)> {
    let mut out = vec![];
    // which categories are present at all
    for cat in CATS {
        if rng.chance(1, 4) {
            continue;
        }
        let all = pats_of(t, cat);
        let chosen: Vec<Pat> = match rng.below(3) {
            0 => all.clone(),
            1 => rng.subset(&all, 1, 2),
            _ => rng.subset(&all, 1, 5),
        };
        for p in chosen {
            let n_files = rng.range(1, 6);
            // sometimes the files of a pattern form a numbered family (natural-sort territory)
            let family: Option<&str> = if rng.chance(1, 5) { Some(*rng.pick(&["Pool", "v", "", "Token_"])) } else { None };
            for _ in 0..n_files {
                let f = match family {
                    Some(prefix) => {
                        let n = *rng.pick(&[1u32, 2, 3, 9, 10, 11, 20, 100]);
                        let suffix = *rng.pick(&["", "", "", "Mock", "_fixed", "a"]);
                        format!("{}{}{}.sol", prefix, n, suffix)
                    }
                    None => rng.pick(FILE_NAMES).to_string(),
                };
                let n_lines = rng.range(1, 8);
                let mut lines: Vec<i32> = (0..n_lines)
                    .map(|_| match rng.below(10) {
                        0 => 0,
                        1 => 1,
                        2 => 100_000 + rng.below(1000) as i32,
                        _ => rng.below(60) as i32,
                    })
                    .collect();
                lines.sort();
                lines.dedup();
                out.push((p, f, lines));
            }
        }
    }
    // rare: very long lists (a counter that is too narrow, a list that is cut off)
    if !out.is_empty() {
        match rng.below(200) {
            0 | 1 | 2 => {
                // 300-1200 entries under one pattern
                let p = out[rng.below(out.len())].0;
                let files = rng.range(10, 30);
                for f in 0..files {
                    let lines: Vec<i32> = (0..rng.range(30, 40)).map(|i| (i * 3 + f) as i32).collect();
                    out.push((p, format!("many{}.sol", f), lines));
                }
            }
            3 => {
                // more than 65 536 entries in one category
                let p = out[rng.below(out.len())].0;
                for f in 0..70 {
                    let lines: Vec<i32> = (1..=1000).collect();
                    out.push((p, format!("huge{}.sol", f), lines));
                }
            }
            _ => {}
        }
    }
    // the very same (file, lines) entry more than once under a pattern: same-named files with the same
    // content in different directories (vendored copies) produce exactly that
    if !out.is_empty() && rng.chance(1, 3) {
        for _ in 0..rng.range(1, 3) {
            let e = out[rng.below(out.len())].clone();
            for _ in 0..rng.range(1, 3) {
                out.push(e.clone());
            }
        }
    }
    rng.shuffle(&mut out);
    out
}

/// A history of renderings in ONE working directory and one process: each step replaces the
/// report of the step before. Later steps are derived from the first by the small edits a watch
/// loop sees (both copies of a duplicated file change, a file is fixed, a pattern goes away).
pub fn gen_history(rng: &mut Rng, t: &Tables) -> Vec<Synth> {
    let mut cur = gen_entries(rng, t);
    if cur.len() > 40 {
        cur.truncate(40);
    }
    if cur.is_empty() {
        let p = *rng.pick(&pats_of(t, CATS[0]));
        cur.push((p, "a.sol".into(), vec![1]));
    }
    // make sure some entry occurs exactly twice
    let e = cur[rng.below(cur.len())].clone();
    cur.push(e);
    let mut out = vec![Synth { entries: cur.clone(), iteration: Default::default() }];
    for _ in 0..rng.range(1, 3) {
        match rng.below(5) {
            0 | 1 => {
                // every copy of one duplicated entry changes in the same way (or is fixed)
                let pick = cur[rng.below(cur.len())].clone();
                let fixed = rng.chance(1, 2);
                let new_lines: Vec<i32> = if fixed { vec![] } else { vec![pick.2.first().copied().unwrap_or(1) + 1, 77] };
                let mut next = vec![];
                for e in &cur {
                    if *e == pick {
                        if !new_lines.is_empty() {
                            next.push((e.0, e.1.clone(), new_lines.clone()));
                        }
                    } else {
                        next.push(e.clone());
                    }
                }
                if next.is_empty() {
                    next.push(pick);
                }
                cur = next;
            }
            2 => {
                // the same map again
            }
            3 => {
                // one entry more
                let p = cur[rng.below(cur.len())].0;
                cur.push((p, rng.pick(FILE_NAMES).to_string(), vec![rng.below(50) as i32 + 1]));
            }
            _ => {
                // a pair of identical entries appears
                let p = cur[rng.below(cur.len())].0;
                let e = (p, rng.pick(FILE_NAMES).to_string(), vec![rng.below(50) as i32 + 1, 60]);
                cur.push(e.clone());
                cur.push(e);
            }
        }
        out.push(Synth { entries: cur.clone(), iteration: Default::default() });
    }
    out
}

/// Render a history through the real `generate_report`, all steps in one world.
pub fn render_seq(steps: &[Synth]) -> Vec<Rendered> {
    let env = SimEnv::new(World::new("/r"), Schedule::default(), None);
    let mut out = vec![];
    for s in steps {
        let maps = Maps::from_flat(&s.entries);
        let r = with_env(&env, || generate_report(maps.v, maps.o, maps.q));
        let w = env.world();
        out.push(Rendered {
            report: w.file("/r/solstat_report.md").map(|(b, _)| b.clone()),
            abort: r.err(),
            journal: vec![],
        });
    }
    out
}

pub fn flat_of(entries: &[(Pat, String, Vec<i32>)]) -> Flat {
    let mut f: Flat = entries
        .iter()
        .map(|(p, file, lines)| {
            let mut l = lines.clone();
            l.sort();
            l.dedup();
            Entry {
                pat: p.label(),
                file: file.clone(),
                lines: l,
            }
        })
        .collect();
    f.sort();
    f
}

pub struct Rendered {
    pub report: Option<Vec<u8>>,
    pub abort: Option<Abort>,
    pub journal: Vec<Ev>,
}

/// Render through the real `generate_report` in a world that contains only a working directory.
pub fn render(s: &Synth) -> Rendered {
    let maps = Maps::from_flat(&s.entries);
    let world = World::new("/r");
    let env = SimEnv::new(
        world,
        Schedule {
            listing: OrderPolicy::default(),
            iteration: s.iteration.clone(),
        },
        None,
    );
    let r = with_env(&env, || generate_report(maps.v, maps.o, maps.q));
    let w = env.world();
    Rendered {
        report: w.file("/r/solstat_report.md").map(|(b, _)| b.clone()),
        abort: r.err(),
        journal: env.journal(),
    }
}

impl Synth {
    pub fn to_json(&self) -> Value {
        json!({
            "entries": self.entries.iter().map(|(p, f, l)| json!({"pattern": p.label(), "file": f, "lines": l})).collect::<Vec<_>>(),
            "iteration": self.iteration.to_json(),
        })
    }
    pub fn from_json(v: &Value, doc: &HashMap<Cat, Vec<String>>) -> Result<Synth, String> {
        let mut entries = vec![];
        for e in v["entries"].as_array().ok_or("entries")? {
            let label = e["pattern"].as_str().ok_or("pattern")?;
            let p = crate::pats::from_label(label, doc).ok_or(format!("unknown pattern {}", label))?;
            let f = e["file"].as_str().ok_or("file")?.to_string();
            let lines = e["lines"]
                .as_array()
                .ok_or("lines")?
                .iter()
                .map(|x| x.as_i64().unwrap_or(0) as i32)
                .collect();
            entries.push((p, f, lines));
        }
        Ok(Synth {
            entries,
            iteration: OrderPolicy::from_json(&v["iteration"]),
        })
    }
    pub fn shrink(&self) -> Vec<Synth> {
        let mut out = vec![];
        let n = self.entries.len();
        if n > 3 {
            for half in 0..2 {
                let mut s = self.clone();
                if half == 0 {
                    s.entries.truncate(n / 2);
                } else {
                    s.entries.drain(..n / 2);
                }
                out.push(s);
            }
        }
        for i in 0..n {
            let mut s = self.clone();
            s.entries.remove(i);
            out.push(s);
        }
        for i in 0..n {
            if self.entries[i].2.len() > 1 {
                let mut s = self.clone();
                s.entries[i].2.truncate(1);
                out.push(s);
            }
            if self.entries[i].1 != "a.sol" {
                let mut s = self.clone();
                s.entries[i].1 = "a.sol".into();
                out.push(s);
            }
            if self.entries[i].2 != vec![1] && self.entries[i].2.len() == 1 {
                let mut s = self.clone();
                s.entries[i].2 = vec![1];
                out.push(s);
            }
        }
        for p in crate::shrink::shrink_policy(&self.iteration, &crate::gen::all_pattern_keys()) {
            let mut s = self.clone();
            s.iteration = p;
            out.push(s);
        }
        out
    }
}
