//! Synthetic findings maps handed straight to the renderers (through the real `generate_report`).

use crate::pats::{Cat, Entry, Flat, Maps, Pat, CATS};
use crate::report::{pats_of, Tables};
use crate::rng::Rng;
use crate::simenv::{with_env, Abort, Ev, OrderPolicy, Schedule, SimEnv};
use crate::world::World;
use serde_json::{json, Value};
use solstat::report::generation::generate_report;
use std::collections::HashMap;

pub const FILE_NAMES: &[&str] = &[
    "a.sol",
    "b.sol",
    "Token.sol",
    "my token.sol",
    "x:1.sol",
    "\u{fc}n\u{ef}.sol",
    ".sol",
    "A.b.sol",
    "9.sol",
    "z-last.sol",
    "- dash.sol",
    "### Lines.sol",
    "a.sol:5",
    " lead and trail .sol",
    "tab\there.sol",
    "my_token.sol",
    "R&D.sol",
    "a&amp;b.sol",
    "Vault<T>.sol",
    "a*b.sol",
    "p|q.sol",
    "`tick`.sol",
    "<x>.sol",
    "[1](2).sol",
    "back\\slash.sol",
    "#hash.sol",
    "~tilde~.sol",
    "## Low Risk.sol",
];

/// One synthetic findings map as an ordered list: the order is the order in which entries are
/// pushed into the `Vec` of their pattern (the "discovery order").
#[derive(Clone, Debug, PartialEq, Eq)]
pub struct Synth {
    pub entries: Vec<(Pat, String, Vec<i32>)>,
    pub iteration: OrderPolicy,
}

pub fn gen_entries(rng: &mut Rng, t: &Tables) -> Vec<(Pat, String, Vec<i32>)> {
    let mut out = vec![];
    // which categories are present at all
    for cat in CATS {
        if rng.chance(1, 4) {
            continue;
        }
        let all = pats_of(t, cat);
        let chosen: Vec<Pat> = match rng.below(3) {
            0 => all.clone(),
            1 => rng.subset(&all, 1, 2),
            _ => rng.subset(&all, 1, 5),
        };
        for p in chosen {
            let n_files = rng.range(1, 6);
            // sometimes the files of a pattern form a numbered family (natural-sort territory)
            let family: Option<&str> = if rng.chance(1, 5) { Some(*rng.pick(&["Pool", "v", "", "Token_"])) } else { None };
            for _ in 0..n_files {
                let f = match family {
                    Some(prefix) => {
                        let n = *rng.pick(&[1u32, 2, 3, 9, 10, 11, 20, 100]);
                        let suffix = *rng.pick(&["", "", "", "Mock", "_fixed", "a"]);
                        format!("{}{}{}.sol", prefix, n, suffix)
                    }
                    None => rng.pick(FILE_NAMES).to_string(),
                };
                let n_lines = rng.range(1, 8);
                let mut lines: Vec<i32> = (0..n_lines)
                    .map(|_| match rng.below(10) {
                        0 => 0,
                        1 => 1,
                        2 => 100_000 + rng.below(1000) as i32,
                        _ => rng.below(60) as i32,
                    })
                    .collect();
                lines.sort();
                lines.dedup();
                out.push((p, f, lines));
            }
        }
    }
    // rare: very long lists (a counter that is too narrow, a list that is cut off)
    if !out.is_empty() {
        match rng.below(200) {
            0 | 1 | 2 => {
                // 300-1200 entries under one pattern
                let p = out[rng.below(out.len())].0;
                let files = rng.range(10, 30);
                for f in 0..files {
                    let lines: Vec<i32> = (0..rng.range(30, 40)).map(|i| (i * 3 + f) as i32).collect();
                    out.push((p, format!("many{}.sol", f), lines));
                }
            }
            3 => {
                // more than 65 536 entries in one category
                let p = out[rng.below(out.len())].0;
                for f in 0..70 {
                    let lines: Vec<i32> = (1..=1000).collect();
                    out.push((p, format!("huge{}.sol", f), lines));
                }
            }
            _ => {}
        }
    }
    rng.shuffle(&mut out);
    out
}

pub fn flat_of(entries: &[(Pat, String, Vec<i32>)]) -> Flat {
    let mut f: Flat = entries
        .iter()
        .map(|(p, file, lines)| {
            let mut l = lines.clone();
            l.sort();
            l.dedup();
            Entry {
                pat: p.label(),
                file: file.clone(),
                lines: l,
            }
        })
        .collect();
    f.sort();
    f
}

pub struct Rendered {
    pub report: Option<Vec<u8>>,
    pub abort: Option<Abort>,
    pub journal: Vec<Ev>,
}

/// Render through the real `generate_report` in a world that contains only a working directory.
pub fn render(s: &Synth) -> Rendered {
    let maps = Maps::from_flat(&s.entries);
    let world = World::new("/r");
    let env = SimEnv::new(
        world,
        Schedule {
            listing: OrderPolicy::default(),
            iteration: s.iteration.clone(),
        },
        None,
    );
    let r = with_env(&env, || generate_report(maps.v, maps.o, maps.q));
    let w = env.world();
    Rendered {
        report: w.file("/r/solstat_report.md").map(|(b, _)| b.clone()),
        abort: r.err(),
        journal: env.journal(),
    }
}

impl Synth {
    pub fn to_json(&self) -> Value {
        json!({
            "entries": self.entries.iter().map(|(p, f, l)| json!({"pattern": p.label(), "file": f, "lines": l})).collect::<Vec<_>>(),
            "iteration": self.iteration.to_json(),
        })
    }
    pub fn from_json(v: &Value, doc: &HashMap<Cat, Vec<String>>) -> Result<Synth, String> {
        let mut entries = vec![];
        for e in v["entries"].as_array().ok_or("entries")? {
            let label = e["pattern"].as_str().ok_or("pattern")?;
            let p = crate::pats::from_label(label, doc).ok_or(format!("unknown pattern {}", label))?;
            let f = e["file"].as_str().ok_or("file")?.to_string();
            let lines = e["lines"]
                .as_array()
                .ok_or("lines")?
                .iter()
                .map(|x| x.as_i64().unwrap_or(0) as i32)
                .collect();
            entries.push((p, f, lines));
        }
        Ok(Synth {
            entries,
            iteration: OrderPolicy::from_json(&v["iteration"]),
        })
    }
    pub fn shrink(&self) -> Vec<Synth> {
        let mut out = vec![];
        let n = self.entries.len();
        if n > 3 {
            for half in 0..2 {
                let mut s = self.clone();
                if half == 0 {
                    s.entries.truncate(n / 2);
                } else {
                    s.entries.drain(..n / 2);
                }
                out.push(s);
            }
        }
        for i in 0..n {
            let mut s = self.clone();
            s.entries.remove(i);
            out.push(s);
        }
        for i in 0..n {
            if self.entries[i].2.len() > 1 {
                let mut s = self.clone();
                s.entries[i].2.truncate(1);
                out.push(s);
            }
            if self.entries[i].1 != "a.sol" {
                let mut s = self.clone();
                s.entries[i].1 = "a.sol".into();
                out.push(s);
            }
            if self.entries[i].2 != vec![1] && self.entries[i].2.len() == 1 {
                let mut s = self.clone();
                s.entries[i].2 = vec![1];
                out.push(s);
            }
        }
        for p in crate::shrink::shrink_policy(&self.iteration, &crate::gen::all_pattern_keys()) {
            let mut s = self.clone();
            s.iteration = p;
            out.push(s);
        }
        out
    }
}
