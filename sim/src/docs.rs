//! The documented pattern names, read from the repository at run time (docs tables and the
//! sample Solstat.toml). These are the names property C14 quantifies over.

use crate::pats::Cat;
use std::collections::HashMap;

pub fn repo_root() -> String {
    std::env::var("SOLSTAT_REPO").unwrap_or_else(|_| "/repo".to_string())
}

fn table_names(md: &str) -> Vec<String> {
    let mut out = vec![];
    for line in md.lines() {
        let l = line.trim();
        if !l.starts_with('|') {
            continue;
        }
        let cells: Vec<&str> = l.trim_matches('|').split('|').collect();
        if cells.is_empty() {
            continue;
        }
        let c = cells[0].trim();
        if !c.is_empty()
            && c.chars()
                .all(|ch| ch.is_ascii_lowercase() || ch.is_ascii_digit() || ch == '_')
            && c.contains(|ch: char| ch.is_ascii_lowercase())
        {
            out.push(c.to_string());
        }
    }
    out
}

fn toml_array(toml: &str, key: &str) -> Vec<String> {
    // minimal: `key = [ "a", "b", ... ]` possibly spanning lines
    let mut out = vec![];
    let mut rest = toml;
    while let Some(pos) = rest.find(key) {
        let line_start = rest[..pos].rfind('\n').map(|i| i + 1).unwrap_or(0);
        let before = &rest[line_start..pos];
        let after = &rest[pos + key.len()..];
        if before.trim().is_empty() && after.trim_start().starts_with('=') {
            if let Some(open) = after.find('[') {
                if let Some(close) = after[open..].find(']') {
                    let body = &after[open + 1..open + close];
                    for part in body.split(',') {
                        let p = part.trim().trim_matches('"').trim_matches('\'').trim();
                        if !p.is_empty() {
                            out.push(p.to_string());
                        }
                    }
                    return out;
                }
            }
        }
        rest = &rest[pos + key.len()..];
    }
    out
}

#[derive(Clone, Debug, Default)]
pub struct Documented {
    /// per category: names from the docs table and the sample toml, deduplicated, doc order first
    pub names: HashMap<Cat, Vec<String>>,
    /// where each name came from ("docs", "toml", "docs+toml")
    pub origin: HashMap<(Cat, String), String>,
}

pub fn load() -> Result<Documented, String> {
    let root = repo_root();
    let mut d = Documented::default();
    for (cat, md, key) in [
        (Cat::Opt, "docs/identified-optimizations.md", "optimizations"),
        (Cat::Vul, "docs/identified-vulnerabilities.md", "vulnerabilities"),
        (Cat::Qa, "docs/identified-quality-assurance.md", "qa"),
    ] {
        let mdp = format!("{}/{}", root, md);
        let md_text = std::fs::read_to_string(&mdp).map_err(|e| format!("{}: {}", mdp, e))?;
        let tp = format!("{}/Solstat.toml", root);
        let toml_text = std::fs::read_to_string(&tp).map_err(|e| format!("{}: {}", tp, e))?;
        let mut names = vec![];
        for n in table_names(&md_text) {
            if !names.contains(&n) {
                d.origin.insert((cat, n.clone()), "docs".into());
                names.push(n);
            }
        }
        for n in toml_array(&toml_text, key) {
            let n = n.to_lowercase();
            if !names.contains(&n) {
                d.origin.insert((cat, n.clone()), "toml".into());
                names.push(n);
            } else {
                d.origin.insert((cat, n.clone()), "docs+toml".into());
            }
        }
        d.names.insert(cat, names);
    }
    Ok(d)
}

impl Documented {
    pub fn of(&self, cat: Cat) -> &[String] {
        self.names.get(&cat).map(|v| v.as_slice()).unwrap_or(&[])
    }
}
