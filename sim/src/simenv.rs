//! `SimEnv`: the `Env` the simulator installs behind solstat's seam. It owns the world, the
//! schedule (listing and iteration orders as explicit data) and the journal of every environment
//! call. It draws no randomness: a schedule is data, produced by a generator or read from a
//! replay file.

use crate::rng::{hash_str, mix};
use crate::world::{base_name, join, parent_of, Fault, Node, World};
use serde_json::{json, Value};
use solstat::verif_shim::{Env, SimExit, WriteMode};
use std::collections::BTreeMap;
use std::io;
use std::path::{Path, PathBuf};
use std::sync::{Arc, Mutex};

/// An ordering decision as data: every name has a rank; the k-th call may be re-salted so that two
/// calls on the same directory (or map) see different orders.
#[derive(Clone, Debug, Default, PartialEq, Eq)]
pub struct OrderPolicy {
    pub ranks: BTreeMap<String, u64>,
    /// empty or all-zero = stable order; otherwise salts[k % len] re-mixes the ranks of call k
    pub salts: Vec<u64>,
}

impl OrderPolicy {
    pub fn key(&self, name: &str, call: usize) -> u64 {
        let r = self
            .ranks
            .get(name)
            .copied()
            .unwrap_or_else(|| hash_str(0x5eed, name));
        if self.salts.is_empty() {
            return r;
        }
        let s = self.salts[call % self.salts.len()];
        if s == 0 {
            r
        } else {
            mix(r ^ s)
        }
    }
    pub fn to_json(&self) -> Value {
        json!({"ranks": self.ranks, "salts": self.salts})
    }
    pub fn from_json(v: &Value) -> OrderPolicy {
        let mut p = OrderPolicy::default();
        if let Some(o) = v["ranks"].as_object() {
            for (k, r) in o {
                p.ranks.insert(k.clone(), r.as_u64().unwrap_or(0));
            }
        }
        if let Some(a) = v["salts"].as_array() {
            p.salts = a.iter().map(|x| x.as_u64().unwrap_or(0)).collect();
        }
        p
    }
}

#[derive(Clone, Debug, Default, PartialEq, Eq)]
pub struct Schedule {
    /// keyed by absolute path of the entry
    pub listing: OrderPolicy,
    /// keyed by the Debug text of the map key
    pub iteration: OrderPolicy,
}

impl Schedule {
    pub fn to_json(&self) -> Value {
        json!({"listing": self.listing.to_json(), "iteration": self.iteration.to_json()})
    }
    pub fn from_json(v: &Value) -> Schedule {
        Schedule {
            listing: OrderPolicy::from_json(&v["listing"]),
            iteration: OrderPolicy::from_json(&v["iteration"]),
        }
    }
}

#[derive(Clone, Debug, PartialEq, Eq)]
pub enum Ev {
    ReadDir {
        path: String,
        result: Result<Vec<String>, String>,
    },
    IsDir {
        path: String,
        ans: bool,
    },
    IsFile {
        path: String,
        ans: bool,
    },
    FileLen {
        path: String,
    },
    Read {
        path: String,
        outcome: String,
    },
    Write {
        path: String,
        mode: String,
        len: usize,
        ok: bool,
    },
    RemoveFile {
        path: String,
    },
    RemoveDirAll {
        path: String,
    },
    Rename {
        from: String,
        to: String,
    },
    CreateDirAll {
        path: String,
    },
    Cwd,
    IterOrder {
        site: String,
        keys: Vec<String>,
        perm: Vec<usize>,
    },
    Args,
    Exit(i32),
}

impl Ev {
    pub fn render(&self) -> String {
        match self {
            Ev::ReadDir { path, result } => match result {
                Ok(v) => format!(
                    "read_dir {} -> [{}]",
                    path,
                    v.iter().map(|p| base_name(p)).collect::<Vec<_>>().join(", ")
                ),
                Err(e) => format!("read_dir {} -> {}", path, e),
            },
            Ev::IsDir { path, ans } => format!("is_dir {} -> {}", path, ans),
            Ev::IsFile { path, ans } => format!("is_file {} -> {}", path, ans),
            Ev::FileLen { path } => format!("file_len {}", path),
            Ev::Read { path, outcome } => format!("read {} -> {}", path, outcome),
            Ev::Write {
                path,
                mode,
                len,
                ok,
            } => format!(
                "write[{}] {} {} bytes -> {}",
                mode,
                path,
                len,
                if *ok { "ok" } else { "err" }
            ),
            Ev::RemoveFile { path } => format!("remove_file {}", path),
            Ev::RemoveDirAll { path } => format!("remove_dir_all {}", path),
            Ev::Rename { from, to } => format!("rename {} -> {}", from, to),
            Ev::CreateDirAll { path } => format!("create_dir_all {}", path),
            Ev::Cwd => "current_dir".to_string(),
            Ev::IterOrder { site, keys, perm } => format!(
                "iterate {} [{}] as {:?}",
                site,
                keys.join(", "),
                perm
            ),
            Ev::Args => "args".to_string(),
            Ev::Exit(c) => format!("exit {}", c),
        }
    }
    pub fn is_mutation(&self) -> bool {
        matches!(
            self,
            Ev::Write { .. }
                | Ev::RemoveFile { .. }
                | Ev::RemoveDirAll { .. }
                | Ev::Rename { .. }
                | Ev::CreateDirAll { .. }
        )
    }
}

pub struct Inner {
    pub world: World,
    pub schedule: Schedule,
    pub argv: Option<Vec<String>>,
    pub journal: Vec<Ev>,
    pub listing_calls: usize,
    pub iter_calls: usize,
    pub step_cap: usize,
}

pub struct SimEnv {
    pub inner: Mutex<Inner>,
}

/// Unwind payload when a run exceeds its step budget.
#[derive(Debug)]
pub struct StepCap;

impl SimEnv {
    pub fn new(world: World, schedule: Schedule, argv: Option<Vec<String>>) -> Arc<SimEnv> {
        Arc::new(SimEnv {
            inner: Mutex::new(Inner {
                world,
                schedule,
                argv,
                journal: vec![],
                listing_calls: 0,
                iter_calls: 0,
                step_cap: 50_000,
            }),
        })
    }

    fn lock(&self) -> std::sync::MutexGuard<'_, Inner> {
        match self.inner.lock() {
            Ok(g) => g,
            Err(p) => p.into_inner(),
        }
    }

    pub fn journal(&self) -> Vec<Ev> {
        self.lock().journal.clone()
    }
    pub fn world(&self) -> World {
        self.lock().world.clone()
    }
    pub fn steps(&self) -> usize {
        self.lock().journal.len()
    }

    fn log(&self, g: &mut Inner, ev: Ev) {
        g.journal.push(ev);
        if g.journal.len() > g.step_cap {
            std::panic::resume_unwind(Box::new(StepCap));
        }
    }
}

fn nf() -> io::Error {
    io::Error::new(io::ErrorKind::NotFound, "No such file or directory (simulated)")
}

impl Env for SimEnv {
    fn read_dir(&self, dir: &Path) -> io::Result<Vec<PathBuf>> {
        let mut g = self.lock();
        let abs = g.world.resolve(dir);
        if !g.world.is_dir(&abs) {
            let e = if g.world.is_file(&abs) {
                "ENOTDIR"
            } else {
                "ENOENT"
            };
            self.log(
                &mut g,
                Ev::ReadDir {
                    path: abs,
                    result: Err(e.to_string()),
                },
            );
            return Err(if e == "ENOENT" {
                nf()
            } else {
                io::Error::new(io::ErrorKind::Other, "Not a directory (simulated)")
            });
        }
        let call = g.listing_calls;
        g.listing_calls += 1;
        let mut names = g.world.children(&abs);
        let pol = g.schedule.listing.clone();
        names.sort_by_key(|n| (pol.key(&join(&abs, n), call), n.clone()));
        let listed_abs: Vec<String> = names.iter().map(|n| join(&abs, n)).collect();
        self.log(
            &mut g,
            Ev::ReadDir {
                path: abs,
                result: Ok(listed_abs),
            },
        );
        // the program sees the path the way it spelled the directory
        Ok(names.iter().map(|n| dir.join(n)).collect())
    }

    fn is_dir(&self, p: &Path) -> bool {
        let mut g = self.lock();
        let abs = g.world.resolve(p);
        let ans = g.world.is_dir(&abs);
        self.log(&mut g, Ev::IsDir { path: abs, ans });
        ans
    }

    fn is_file(&self, p: &Path) -> bool {
        let mut g = self.lock();
        let abs = g.world.resolve(p);
        let ans = g.world.is_file(&abs);
        self.log(&mut g, Ev::IsFile { path: abs, ans });
        ans
    }

    fn file_len(&self, p: &Path) -> io::Result<u64> {
        let mut g = self.lock();
        let abs = g.world.resolve(p);
        let r = g.world.file(&abs).map(|(b, _)| b.len() as u64);
        self.log(&mut g, Ev::FileLen { path: abs });
        r.ok_or_else(nf)
    }

    fn read(&self, p: &Path) -> io::Result<Vec<u8>> {
        let mut g = self.lock();
        let abs = g.world.resolve(p);
        let (outcome, res): (String, io::Result<Vec<u8>>) = match g.world.nodes.get(&abs) {
            Some(Node::File { bytes, fault }) => match fault {
                Fault::None => (format!("ok:{}", bytes.len()), Ok(bytes.clone())),
                Fault::Eio => (
                    "EIO".into(),
                    Err(io::Error::new(
                        io::ErrorKind::Other,
                        "Input/output error (simulated)",
                    )),
                ),
                Fault::Eacces => (
                    "EACCES".into(),
                    Err(io::Error::new(
                        io::ErrorKind::PermissionDenied,
                        "Permission denied (simulated)",
                    )),
                ),
            },
            Some(Node::Dir) => (
                "EISDIR".into(),
                Err(io::Error::new(
                    io::ErrorKind::Other,
                    "Is a directory (simulated)",
                )),
            ),
            None => {
                if abs == "/" {
                    (
                        "EISDIR".into(),
                        Err(io::Error::new(
                            io::ErrorKind::Other,
                            "Is a directory (simulated)",
                        )),
                    )
                } else {
                    ("ENOENT".into(), Err(nf()))
                }
            }
        };
        self.log(&mut g, Ev::Read { path: abs, outcome });
        res
    }

    fn write(&self, p: &Path, data: &[u8], mode: WriteMode) -> io::Result<()> {
        let mut g = self.lock();
        let abs = g.world.resolve(p);
        let parent = parent_of(&abs);
        let mode_s = format!("{:?}", mode);
        let res: io::Result<()> = if !g.world.is_dir(&parent) {
            Err(nf())
        } else if g.world.is_dir(&abs) {
            Err(io::Error::new(
                io::ErrorKind::Other,
                "Is a directory (simulated)",
            ))
        } else {
            match mode {
                WriteMode::Truncate => {
                    g.world.put_file(&abs, data.to_vec(), Fault::None);
                    Ok(())
                }
                WriteMode::Append => {
                    let mut bytes = match g.world.file(&abs) {
                        Some((b, _)) => b.clone(),
                        None => vec![],
                    };
                    bytes.extend_from_slice(data);
                    g.world.put_file(&abs, bytes, Fault::None);
                    Ok(())
                }
                WriteMode::CreateNew => {
                    if g.world.is_file(&abs) {
                        Err(io::Error::new(
                            io::ErrorKind::AlreadyExists,
                            "File exists (simulated)",
                        ))
                    } else {
                        g.world.put_file(&abs, data.to_vec(), Fault::None);
                        Ok(())
                    }
                }
            }
        };
        let ok = res.is_ok();
        self.log(
            &mut g,
            Ev::Write {
                path: abs,
                mode: mode_s,
                len: data.len(),
                ok,
            },
        );
        res
    }

    fn remove_file(&self, p: &Path) -> io::Result<()> {
        let mut g = self.lock();
        let abs = g.world.resolve(p);
        let res = if g.world.is_file(&abs) {
            g.world.nodes.remove(&abs);
            Ok(())
        } else {
            Err(nf())
        };
        self.log(&mut g, Ev::RemoveFile { path: abs });
        res
    }

    fn remove_dir_all(&self, p: &Path) -> io::Result<()> {
        let mut g = self.lock();
        let abs = g.world.resolve(p);
        let res = if g.world.is_dir(&abs) {
            g.world.remove_tree(&abs);
            Ok(())
        } else {
            Err(nf())
        };
        self.log(&mut g, Ev::RemoveDirAll { path: abs });
        res
    }

    fn rename(&self, from: &Path, to: &Path) -> io::Result<()> {
        let mut g = self.lock();
        let a = g.world.resolve(from);
        let b = g.world.resolve(to);
        // the cases in which rename(2) refuses: file onto directory, directory onto file,
        // directory onto non-empty directory
        let a_is_dir = g.world.is_dir(&a);
        let b_is_dir = g.world.is_dir(&b);
        let b_is_file = g.world.is_file(&b);
        let b_nonempty = b_is_dir && !g.world.children(&b).is_empty();
        let refused = (!a_is_dir && b_is_dir) || (a_is_dir && b_is_file) || (a_is_dir && b_nonempty);
        let res = if refused {
            Err(io::Error::new(
                io::ErrorKind::Other,
                "rename refused: incompatible source and target kinds (simulated)",
            ))
        } else if g.world.nodes.contains_key(&a) && g.world.is_dir(&parent_of(&b)) {
            let prefix = format!("{}/", a);
            let moved: Vec<(String, Node)> = g
                .world
                .nodes
                .iter()
                .filter(|(k, _)| **k == a || k.starts_with(&prefix))
                .map(|(k, v)| (k.clone(), v.clone()))
                .collect();
            g.world.remove_tree(&b);
            for (k, v) in moved {
                g.world.nodes.remove(&k);
                let nk = format!("{}{}", b, &k[a.len()..]);
                g.world.nodes.insert(nk, v);
            }
            Ok(())
        } else {
            Err(nf())
        };
        self.log(&mut g, Ev::Rename { from: a, to: b });
        res
    }

    fn create_dir_all(&self, p: &Path) -> io::Result<()> {
        let mut g = self.lock();
        let abs = g.world.resolve(p);
        g.world.mkdir_p(&abs);
        self.log(&mut g, Ev::CreateDirAll { path: abs });
        Ok(())
    }

    fn current_dir(&self) -> io::Result<PathBuf> {
        let mut g = self.lock();
        let cwd = g.world.cwd.clone();
        self.log(&mut g, Ev::Cwd);
        Ok(PathBuf::from(cwd))
    }

    fn iteration_order(&self, site: &'static str, keys: &[String]) -> Vec<usize> {
        let mut g = self.lock();
        let call = g.iter_calls;
        g.iter_calls += 1;
        let pol = g.schedule.iteration.clone();
        let mut idx: Vec<usize> = (0..keys.len()).collect();
        idx.sort_by_key(|&i| (pol.key(&keys[i], call), i));
        self.log(
            &mut g,
            Ev::IterOrder {
                site: site.to_string(),
                keys: keys.to_vec(),
                perm: idx.clone(),
            },
        );
        idx
    }

    fn args(&self) -> Option<Vec<String>> {
        let mut g = self.lock();
        let a = g.argv.clone();
        self.log(&mut g, Ev::Args);
        a
    }

    fn exit(&self, code: i32) -> ! {
        {
            let mut g = self.lock();
            g.journal.push(Ev::Exit(code));
        }
        std::panic::resume_unwind(Box::new(SimExit(code)))
    }
}

/// How a guarded call into solstat ended.
#[derive(Clone, Debug, PartialEq, Eq)]
pub enum Abort {
    Exit(i32),
    Panic(String),
    StepCap,
}

impl Abort {
    /// exit status the real process would have had
    pub fn status(&self) -> i32 {
        match self {
            Abort::Exit(c) => *c,
            Abort::Panic(_) => 101,
            Abort::StepCap => 101,
        }
    }
}

/// Exclusive mode: one simulated run at a time in this process, and its `Env` is also installed as
/// the process-wide fallback so that threads started by solstat itself see the same simulated world.
pub static EXCLUSIVE: std::sync::atomic::AtomicBool = std::sync::atomic::AtomicBool::new(false);

pub fn exclusive() -> bool {
    EXCLUSIVE.load(std::sync::atomic::Ordering::SeqCst)
}

/// Run `f` with `env` installed on this thread; unwinding (panic or simulated exit) is caught.
pub fn with_env<T>(env: &Arc<SimEnv>, f: impl FnOnce() -> T) -> Result<T, Abort> {
    let e: Arc<dyn Env> = env.clone();
    let excl = exclusive();
    if excl {
        solstat::verif_shim::install_global(Some(e.clone()));
    }
    solstat::verif_shim::install(e);
    let r = std::panic::catch_unwind(std::panic::AssertUnwindSafe(f));
    solstat::verif_shim::uninstall();
    if excl {
        solstat::verif_shim::install_global(None);
    }
    r.map_err(classify_payload)
}

/// Run `f` without any env (pure library calls), catching panics.
pub fn guarded<T>(f: impl FnOnce() -> T) -> Result<T, Abort> {
    std::panic::catch_unwind(std::panic::AssertUnwindSafe(f)).map_err(classify_payload)
}

pub fn classify_payload(p: Box<dyn std::any::Any + Send>) -> Abort {
    if let Some(e) = p.downcast_ref::<SimExit>() {
        Abort::Exit(e.0)
    } else if p.downcast_ref::<StepCap>().is_some() {
        Abort::StepCap
    } else if let Some(s) = p.downcast_ref::<String>() {
        Abort::Panic(s.clone())
    } else if let Some(s) = p.downcast_ref::<&'static str>() {
        Abort::Panic(s.to_string())
    } else {
        Abort::Panic("<non-string panic payload>".into())
    }
}

pub fn journal_hash(j: &[Ev]) -> u64 {
    let mut h = 0x1234_5678u64;
    for e in j {
        h = mix(h ^ hash_str(1, &e.render()));
    }
    h
}
