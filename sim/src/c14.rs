//! C14 -- configuration selects exactly the named patterns and the named directory.
//!
//! Two parts: (1) table checks over the complete, small space of documented names x casings
//! (names are read from /repo's docs and sample toml at run time); (2) simulated process runs
//! through the real `Opts::new` over argv shapes x directory presences x toml contents, judged by
//! a small reference model of the option resolution and by the journal of environment effects.

use crate::corpus::{render, Screen, TextSpec, FRAGS, PRAGMAS};
use crate::framework::{Ctx, Property, ScnResult, Tier, Violation};
use crate::gen;
use crate::pats::{analyze_file, by_name, defaults, snake, Cat, Pat, CATS};
use crate::rng::{hash_str, mix, Rng};
use crate::run::{run, Mode, RunSpec};
use crate::simenv::{journal_hash, Ev};
use crate::world::{join, Fault, World};
use serde_json::{json, Value};
use solang_parser::pt::{Loc, SourceUnit};
use std::collections::{BTreeSet, HashSet};

pub struct C14;

// ------------------------------------------------------------------------------------------------
// trusted table: configuration name -> the detector function documented under that name

type Det = fn(SourceUnit) -> HashSet<Loc>;

pub fn detector_rows() -> Vec<(Cat, &'static str, Det)> {
    use solstat::analyzer::optimizations as o;
    use solstat::analyzer::qa as q;
    use solstat::analyzer::vulnerabilities as v;
    vec![
        (Cat::Opt, "address_balance", o::address_balance::address_balance_optimization as Det),
        (Cat::Opt, "address_zero", o::address_zero::address_zero_optimization),
        (Cat::Opt, "assign_update_array_value", o::assign_update_array_value::assign_update_array_optimization),
        (Cat::Opt, "bool_equals_bool", o::bool_equals_bool::bool_equals_bool_optimization),
        (Cat::Opt, "cache_array_length", o::cache_array_length::cache_array_length_optimization),
        (Cat::Opt, "constant_variables", o::constant_variables::constant_variable_optimization),
        (Cat::Opt, "immutable_variables", o::immutable_variables::immutable_variables_optimization),
        (Cat::Opt, "increment_decrement", o::increment_decrement::increment_decrement_optimization),
        (Cat::Opt, "memory_to_calldata", o::memory_to_calldata::memory_to_calldata_optimization),
        (Cat::Opt, "multiple_require", o::multiple_require::multiple_require_optimization),
        (Cat::Opt, "optimal_comparison", o::optimal_comparison::optimal_comparison_optimization),
        (Cat::Opt, "pack_storage_variables", o::pack_storage_variables::pack_storage_variables_optimization),
        (Cat::Opt, "pack_struct_variables", o::pack_struct_variables::pack_struct_variables_optimization),
        (Cat::Opt, "payable_function", o::payable_function::payable_function_optimization),
        (Cat::Opt, "private_constant", o::private_constant::private_constant_optimization),
        (Cat::Opt, "safe_math_pre_080", o::safe_math::safe_math_pre_080_optimization),
        (Cat::Opt, "safe_math_post_080", o::safe_math::safe_math_post_080_optimization),
        (Cat::Opt, "shift_math", o::shift_math::shift_math_optimization),
        (Cat::Opt, "short_revert_string", o::short_revert_string::short_revert_string_optimization),
        (Cat::Opt, "solidity_keccak256", o::solidity_keccak256::solidity_keccak256_optimization),
        (Cat::Opt, "solidity_math", o::solidity_math::solidity_math_optimization),
        (Cat::Opt, "sstore", o::sstore::sstore_optimization),
        (Cat::Opt, "string_errors", o::string_errors::string_error_optimization),
        (Cat::Vul, "divide_before_multiply", v::divide_before_multiply::divide_before_multiply_vulnerability),
        (Cat::Vul, "floating_pragma", v::floating_pragma::floating_pragma_vulnerability),
        (Cat::Vul, "unprotected_selfdestruct", v::unprotected_selfdestruct::unprotected_selfdestruct_vulnerability),
        (Cat::Vul, "unsafe_erc20_operation", v::unsafe_erc20_operation::unsafe_erc20_operation_vulnerability),
        (Cat::Qa, "constructor_order", q::constructor_order::constructor_order_qa),
        (Cat::Qa, "private_func_leading_underscore", q::private_func_leading_underscore::private_func_leading_underscore),
        (Cat::Qa, "private_vars_leading_underscore", q::private_vars_leading_underscore::private_vars_leading_underscore),
    ]
}

/// Signature corpus: every fragment alone, under each pragma.
fn signature_texts() -> Vec<String> {
    let mut v = vec![];
    for pragma in 0..PRAGMAS.len() {
        for i in 0..FRAGS.len() {
            v.push(render(&TextSpec {
                pragma,
                contracts: vec![vec![i]],
                spdx: false,
                blank_lines: vec![1],
                clash: false,
                kinds: vec![],
                extras: vec![],
            }));
        }
    }
    v
}

fn sig_of_detector(det: Det, texts: &[String]) -> Option<Vec<Vec<i32>>> {
    let mut out = vec![];
    for t in texts {
        let r = crate::simenv::guarded(|| {
            let su = solang_parser::parse(t, 0).unwrap().0;
            let mut lines: BTreeSet<i32> = BTreeSet::new();
            for loc in det(su) {
                lines.insert(solstat::analyzer::utils::get_line_number(loc.start(), t));
            }
            lines.into_iter().collect::<Vec<i32>>()
        });
        match r {
            Ok(l) => out.push(l),
            Err(_) => return None,
        }
    }
    Some(out)
}

fn sig_of_pattern(p: Pat, texts: &[String]) -> Option<Vec<Vec<i32>>> {
    let mut out = vec![];
    for t in texts {
        match analyze_file(t, 0, p) {
            Ok(l) => out.push(l.into_iter().collect()),
            Err(_) => return None,
        }
    }
    Some(out)
}

pub fn casings(name: &str, rng: &mut Rng) -> Vec<String> {
    let mut v = vec![
        name.to_lowercase(),
        name.to_uppercase(),
        {
            // Title_Case
            let mut s = String::new();
            let mut up = true;
            for c in name.chars() {
                if up {
                    s.extend(c.to_uppercase());
                } else {
                    s.push(c);
                }
                up = c == '_';
            }
            s
        },
        name.chars()
            .enumerate()
            .map(|(i, c)| if i % 2 == 0 { c.to_ascii_uppercase() } else { c })
            .collect(),
    ];
    for _ in 0..2 {
        v.push(
            name.chars()
                .map(|c| if rng.chance(1, 2) { c.to_ascii_uppercase() } else { c })
                .collect(),
        );
    }
    v
}

pub fn junk_names(cat: Cat, ctx: &Ctx, rng: &mut Rng) -> Vec<String> {
    let names = ctx.doc.of(cat);
    let mut v = vec!["no_such_pattern".to_string(), "".to_string(), "zz9".to_string()];
    if !names.is_empty() {
        let n = rng.pick(names).clone();
        v.push(format!("{}_zz9", n));
        v.push(format!("zz9_{}", n));
    }
    // a documented name of another category
    for other in CATS {
        if other != cat {
            if let Some(n) = ctx.doc.of(other).first() {
                if !names.contains(n) {
                    v.push(n.clone());
                }
            }
        }
    }
    v
}

/// Table-level clauses over the complete set of documented names.
pub fn static_checks(ctx: &Ctx) -> (Vec<(String, String)>, u64, Vec<u64>) {
    let mut bad = vec![];
    let mut evals = 0u64;
    let mut cases = vec![];
    let mut rng = Rng::new(mix(ctx.seed ^ 0xC14));
    let texts = signature_texts();
    let rows = detector_rows();
    for cat in CATS {
        let names = ctx.doc.of(cat).to_vec();
        let dflt = defaults(cat);
        let mut selected: Vec<(String, Pat)> = vec![];
        for n in &names {
            let origin = ctx
                .doc
                .origin
                .get(&(cat, n.clone()))
                .cloned()
                .unwrap_or_default();
            let base = by_name(cat, n);
            evals += 1;
            cases.push(hash_str(81, &format!("{}|{}", cat.name(), n)));
            let base = match base {
                Ok(p) => p,
                Err(a) => {
                    bad.push((
                        "documented_name_rejected".to_string(),
                        format!(
                            "{} name '{}' (documented in {}) is not accepted: {:?}",
                            cat.name(),
                            n,
                            origin,
                            a
                        ),
                    ));
                    continue;
                }
            };
            for c in casings(n, &mut rng) {
                evals += 1;
                cases.push(hash_str(81, &format!("{}|{}", cat.name(), c)));
                match by_name(cat, &c) {
                    Ok(p) if p == base => {}
                    Ok(p) => bad.push((
                        "casing_changes_pattern".to_string(),
                        format!("'{}' selects {:?} but '{}' selects {:?}", n, base, c, p),
                    )),
                    Err(_) => bad.push((
                        "casing_rejected".to_string(),
                        format!("'{}' is accepted but its casing '{}' is not", n, c),
                    )),
                }
            }
            if let Some((m, _)) = selected.iter().find(|(_, p)| *p == base) {
                bad.push((
                    "distinct_names_same_pattern".to_string(),
                    format!(
                        "documented names '{}' and '{}' both select {:?}",
                        m, n, base
                    ),
                ));
            }
            selected.push((n.clone(), base));
            if !dflt.contains(&base) {
                bad.push((
                    "documented_pattern_not_in_defaults".to_string(),
                    format!(
                        "'{}' selects {:?}, which is not among the patterns that run without a configuration file",
                        n, base
                    ),
                ));
            }
            // the name selects the behaviour documented under that name
            if let Some((_, _, det)) = rows.iter().find(|(c, rn, _)| *c == cat && rn == n) {
                let a = sig_of_pattern(base, &texts);
                let b = sig_of_detector(*det, &texts);
                evals += texts.len() as u64;
                if let (Some(a), Some(b)) = (a, b) {
                    if a != b {
                        let idx = a.iter().zip(b.iter()).position(|(x, y)| x != y).unwrap_or(0);
                        bad.push((
                            "name_selects_other_behaviour".to_string(),
                            format!(
                                "selecting '{}' does not run the detector documented under that name: on signature text #{} the selected pattern {:?} reports lines {:?}, the '{}' detector reports {:?}",
                                n, idx, base, a[idx], n, b[idx]
                            ),
                        ));
                    }
                }
            }
        }
        // every default pattern can be selected by some name
        for p in &dflt {
            let mut cands: Vec<String> = names.clone();
            cands.push(snake(&p.debug_key()));
            let reachable = cands.iter().any(|n| by_name(cat, n).ok() == Some(*p));
            evals += 1;
            if !reachable {
                bad.push((
                    "default_pattern_not_selectable".to_string(),
                    format!(
                        "{:?} runs by default but no documented name (nor '{}') selects it",
                        p,
                        snake(&p.debug_key())
                    ),
                ));
            }
        }
        // junk is rejected by the table itself
        for jn in junk_names(cat, ctx, &mut rng) {
            evals += 1;
            if let Ok(p) = by_name(cat, &jn) {
                bad.push((
                    "unknown_name_accepted".to_string(),
                    format!("unknown {} name '{}' is accepted and selects {:?}", cat.name(), jn, p),
                ));
            }
        }
    }
    (bad, evals, cases)
}

// ------------------------------------------------------------------------------------------------
// process-level scenarios

#[derive(Clone, Debug)]
pub struct Setup {
    pub spec: RunSpec,
    /// what the toml lists contain (None = no --toml)
    pub toml: Option<TomlModel>,
    pub path_arg: Option<String>,
}

#[derive(Clone, Debug)]
pub struct TomlModel {
    pub path: String,
    pub opt: Vec<String>,
    pub vul: Vec<String>,
    pub qa: Vec<String>,
    pub file: String,
}

fn marker(name: &str) -> Vec<u8> {
    format!(
        "pragma solidity ^0.8.16;\n\ncontract M_{} {{\n    uint256 private v;\n    function pf() public {{\n    }}\n    function t(address a, address to) public {{\n        IERC20(a).transfer(to, 1);\n    }}\n}}\n",
        name
    )
    .into_bytes()
}

fn gen_setup(ctx: &Ctx, rng: &mut Rng) -> Setup {
    let mut world = World::new("/w");
    world.put_file("/w/p/in_path.sol", marker("path"), Fault::None);
    world.put_file("/w/t/in_toml.sol", marker("toml"), Fault::None);
    // directories whose names contain upper-case letters, each with a lower-case decoy next to it
    world.put_file("/w/Pd/in_path_uc.sol", marker("pathuc"), Fault::None);
    world.put_file("/w/Tml/in_toml_uc.sol", marker("tomluc"), Fault::None);
    if rng.chance(1, 2) {
        world.put_file("/w/pd/in_decoy_p.sol", marker("decoyp"), Fault::None);
        world.put_file("/w/tml/in_decoy_t.sol", marker("decoyt"), Fault::None);
    }
    let contracts_present = rng.chance(1, 2);
    if contracts_present {
        world.put_file("/w/contracts/in_default.sol", marker("default"), Fault::None);
    }
    if rng.chance(1, 3) {
        world.put_file("/w/solstat_report.md", b"STALE\n".to_vec(), Fault::None);
    }
    let use_path = rng.chance(1, 2);
    let use_toml = rng.chance(2, 3);
    // --path may also name the default directory explicitly (a value equal to the default is still a
    // given value)
    let path_spelling = rng
        .pick(&["/w/p", "./p", "p", "p/", "./contracts", "contracts", "/w/contracts", "./t", "./nope", "/w/cfg.toml", "/w/Pd", "./Pd", "Pd"])
        .to_string();
    let toml_file = rng.pick(&["/w/cfg.toml", "/w/conf/Solstat.toml"]).to_string();
    let mut toml = None;
    if use_toml {
        let mut lists: Vec<Vec<String>> = vec![];
        let with_junk = rng.chance(1, 4);
        let junk_cat = rng.below(3);
        for (ci, cat) in [Cat::Opt, Cat::Vul, Cat::Qa].iter().enumerate() {
            let names = ctx.doc.of(*cat).to_vec();
            let mut v = match rng.below(4) {
                0 => names.clone(),
                1 => rng.subset(&names, 1, 2),
                2 => rng.subset(&names, 1, 5),
                _ => vec![],
            };
            rng.shuffle(&mut v);
            // seeded casings
            let mut v: Vec<String> = v
                .into_iter()
                .map(|n| {
                    let cs = casings(&n, rng);
                    cs[rng.below(cs.len())].clone()
                })
                .collect();
            if with_junk && ci == junk_cat {
                let j = junk_names(*cat, ctx, rng);
                let jn = j[rng.below(j.len())].clone();
                let pos = rng.below(v.len() + 1);
                v.insert(pos, jn);
            }
            lists.push(v);
        }
        let tpath = rng.pick(&["/w/t", "./t", "t", "/w/Tml", "./Tml", "Tml", "./nope"]).to_string();
        let text = crate::c18::toml_text(&tpath, &lists[0], &lists[1], &lists[2]);
        world.put_file(&toml_file, text.into_bytes(), Fault::None);
        toml = Some(TomlModel {
            path: tpath,
            opt: lists[0].clone(),
            vul: lists[1].clone(),
            qa: lists[2].clone(),
            file: toml_file.clone(),
        });
    }
    let mut argv = vec!["solstat".to_string()];
    let pa: Vec<String> = if use_path {
        vec![
            if rng.chance(1, 2) { "--path" } else { "-p" }.to_string(),
            path_spelling.clone(),
        ]
    } else {
        vec![]
    };
    let ta: Vec<String> = if use_toml {
        vec![
            if rng.chance(1, 2) { "--toml" } else { "-t" }.to_string(),
            toml_file.clone(),
        ]
    } else {
        vec![]
    };
    if rng.chance(1, 2) {
        argv.extend(pa);
        argv.extend(ta);
    } else {
        argv.extend(ta);
        argv.extend(pa);
    }
    let (schedule, _, _) = gen::gen_schedule(rng, &world);
    Setup {
        spec: RunSpec {
            world,
            schedule,
            mode: Mode::Proc { argv },
            render: true,
        },
        toml,
        path_arg: if use_path { Some(path_spelling) } else { None },
    }
}

/// Recover the model inputs from a stored spec (argv + toml file in the world).
fn setup_from_spec(spec: &RunSpec) -> Setup {
    let argv = match &spec.mode {
        Mode::Proc { argv } => argv.clone(),
        _ => vec![],
    };
    let mut path_arg = None;
    let mut toml_file = None;
    let mut i = 1;
    while i < argv.len() {
        match argv[i].as_str() {
            "--path" | "-p" => {
                path_arg = argv.get(i + 1).cloned();
                i += 2;
            }
            "--toml" | "-t" => {
                toml_file = argv.get(i + 1).cloned();
                i += 2;
            }
            _ => i += 1,
        }
    }
    let toml = toml_file.and_then(|f| {
        let abs = spec.world.resolve(std::path::Path::new(&f));
        let (bytes, _) = spec.world.file(&abs)?;
        let text = String::from_utf8(bytes.clone()).ok()?;
        let arr = |key: &str| -> Vec<String> {
            // the generator's own simple format: `key = ["a", "b"]` on one line
            for l in text.lines() {
                if l.starts_with(key) && l[key.len()..].trim_start().starts_with('=') {
                    if let (Some(a), Some(b)) = (l.find('['), l.rfind(']')) {
                        let body = &l[a + 1..b];
                        if body.trim().is_empty() {
                            return vec![];
                        }
                        return body
                            .split(',')
                            .map(|x| x.trim().trim_matches('"').to_string())
                            .collect();
                    }
                }
            }
            vec![]
        };
        let path = text
            .lines()
            .find(|l| l.starts_with("path"))
            .and_then(|l| l.split('\'').nth(1))
            .unwrap_or("")
            .to_string();
        Some(TomlModel {
            path,
            opt: arr("optimizations"),
            vul: arr("vulnerabilities"),
            qa: arr("qa"),
            file: f,
        })
    });
    Setup {
        spec: spec.clone(),
        toml,
        path_arg,
    }
}

pub struct Judged {
    pub violation: Option<(String, String)>,
    pub steps: u64,
    pub trace: u64,
    pub has_unknown: bool,
    pub non_default_casing: bool,
    pub status: i32,
    pub sample: Value,
    pub decisions: u64,
}

pub fn judge(s: &Setup, ctx: &Ctx) -> Judged {
    let out = run(&s.spec);
    let argv = match &s.spec.mode {
        Mode::Proc { argv } => argv.clone(),
        _ => vec![],
    };
    let mut j = Judged {
        violation: None,
        steps: out.journal.len() as u64 + 5,
        trace: mix(journal_hash(&out.journal) ^ out.status() as u64),
        has_unknown: false,
        non_default_casing: false,
        status: out.status(),
        sample: s.spec.sample(&out),
        decisions: crate::c03::decision_hash(&out),
    };
    // model: expected lists
    let mut expected: Vec<(Cat, Vec<Pat>)> = vec![];
    let mut unknown: Vec<String> = vec![];
    let mut rejected_documented: Vec<String> = vec![];
    match &s.toml {
        Some(t) => {
            for (cat, list) in [(Cat::Opt, &t.opt), (Cat::Vul, &t.vul), (Cat::Qa, &t.qa)] {
                let mut ps = vec![];
                for n in list {
                    if n.to_lowercase() != *n {
                        j.non_default_casing = true;
                    }
                    let documented = ctx.doc.of(cat).contains(&n.to_lowercase());
                    if !documented {
                        unknown.push(n.clone());
                        continue;
                    }
                    match by_name(cat, &n.to_lowercase()) {
                        Ok(p) => ps.push(p),
                        Err(_) => rejected_documented.push(n.clone()),
                    }
                }
                expected.push((cat, ps));
            }
        }
        None => {
            for cat in [Cat::Opt, Cat::Vul, Cat::Qa] {
                expected.push((cat, defaults(cat)));
            }
        }
    }
    j.has_unknown = !unknown.is_empty();
    let report = join(&s.spec.world.cwd, "solstat_report.md");
    let wrote: Vec<String> = out
        .journal
        .iter()
        .filter(|e| e.is_mutation())
        .map(|e| e.render())
        .collect();
    if j.has_unknown {
        // clause 4: non-zero status, nothing written
        if out.status() == 0 {
            j.violation = Some((
                "unknown_name_run_succeeded".into(),
                format!("argv {:?}: the configuration lists unknown name(s) {:?} but the run ended with status 0", argv, unknown),
            ));
        } else if !wrote.is_empty()
            || s.spec.world.file(&report).map(|x| x.0.clone())
                != out.world_after.file(&report).map(|x| x.0.clone())
        {
            j.violation = Some((
                "unknown_name_report_written".into(),
                format!(
                    "argv {:?}: the configuration lists unknown name(s) {:?}; the run failed with status {} but only after writing: {:?}",
                    argv, unknown, out.status(), wrote
                ),
            ));
        }
        return j;
    }
    // expected directory
    let (want_dir, why) = match (&s.path_arg, &s.toml) {
        (Some(p), _) => (p.clone(), "--path"),
        (None, Some(t)) => (t.path.clone(), "the path set in the configuration file"),
        (None, None) => ("./contracts".to_string(), "the default ./contracts"),
    };
    let want_abs = s.spec.world.resolve(std::path::Path::new(&want_dir));
    if !s.spec.world.is_dir(&want_abs) {
        // The selected directory does not exist. The property does not say how the run ends, but it
        // does say which directory is analysed: quietly analysing another one is a violation.
        if out.abort.is_none() {
            if let Some(ov) = &out.opts {
                let got_abs = s.spec.world.resolve(std::path::Path::new(&ov.path));
                if got_abs != want_abs {
                    j.violation = Some((
                        "fell_back_to_another_directory".into(),
                        format!(
                            "argv {:?}: the directory comes from {} = {}, which does not exist; the run did not fail but analysed {} instead and ended with status 0",
                            argv, why, want_abs, got_abs
                        ),
                    ));
                }
            }
        }
        return j;
    }
    // everything named exists and is well-formed: the run must succeed
    if let Some(a) = &out.abort {
        j.violation = Some((
            "valid_configuration_rejected".into(),
            format!(
                "argv {:?} (directory from {}: {}, which exists; all pattern names documented{}): the run failed with status {} ({:?})",
                argv, why, want_abs,
                if rejected_documented.is_empty() { String::new() } else { format!(", among them {:?} which the name table rejects", rejected_documented) },
                out.status(), a
            ),
        ));
        return j;
    }
    let ov = out.opts.as_ref().unwrap();
    let got_abs = s.spec.world.resolve(std::path::Path::new(&ov.path));
    let walked: Vec<&String> = out
        .journal
        .iter()
        .filter_map(|e| match e {
            Ev::ReadDir { path, .. } => Some(path),
            _ => None,
        })
        .collect();
    // the walkers' roots: read_dir calls on a path that is not inside an earlier root
    let roots: BTreeSet<&String> = walked
        .iter()
        .filter(|p| ["/w/p", "/w/t", "/w/contracts"].contains(&p.as_str()))
        .copied()
        .collect();
    // `Opts::new` itself may probe ./contracts; a probe is not an analysis. Analysis is visible in
    // the findings: which marker file shows up.
    let markers: BTreeSet<String> = out
        .maps
        .flat()
        .iter()
        .filter(|e| e.file.starts_with("in_"))
        .map(|e| e.file.clone())
        .collect();
    let want_marker = match want_abs.as_str() {
        "/w/p" => "in_path.sol",
        "/w/t" => "in_toml.sol",
        "/w/contracts" => "in_default.sol",
        "/w/Pd" => "in_path_uc.sol",
        "/w/Tml" => "in_toml_uc.sol",
        _ => "",
    };
    let _ = roots;
    if got_abs != want_abs || markers.iter().any(|m| m != want_marker) {
        j.violation = Some((
            "wrong_directory_analysed".into(),
            format!(
                "argv {:?}: the directory should come from {} = {}, but the run analysed {} (findings from {:?})",
                argv, why, want_abs, got_abs, markers
            ),
        ));
        return j;
    }
    for (cat, want) in &expected {
        let got = ov.of(*cat);
        if got != want {
            j.violation = Some((
                "wrong_patterns_selected".into(),
                format!(
                    "argv {:?}: {} should be {:?} ({}), the run selected {:?}",
                    argv,
                    cat.name(),
                    want,
                    if s.toml.is_some() { "the configuration file's list, in order" } else { "all default patterns" },
                    got
                ),
            ));
            return j;
        }
    }
    // exactly the listed patterns are analysed: no finding of an unlisted pattern
    for e in out.maps.flat() {
        let listed = expected
            .iter()
            .any(|(_, ps)| ps.iter().any(|p| p.label() == e.pat));
        if !listed {
            j.violation = Some((
                "unlisted_pattern_analysed".into(),
                format!("argv {:?}: findings for {} although it is not selected", argv, e.pat),
            ));
            return j;
        }
    }
    // ... and every listed pattern is analysed, over every eligible file of the selected directory:
    // the findings are those of the per-file detector called directly for each listed pattern
    // (the model cannot judge a world with an unreadable or unanalysable eligible file: no verdict)
    // (a name listed twice selects one pattern; how often an entry is repeated is C03's subject, so
    // both sides are compared as sets)
    let mut listed: Vec<Pat> = vec![];
    for p in expected.iter().flat_map(|(_, ps)| ps.iter().copied()) {
        if !listed.contains(&p) {
            listed.push(p);
        }
    }
    if let Ok(mut want) = crate::model::expected_findings(&s.spec.world, &want_abs, &listed) {
        let mut got = crate::pats::sorted(out.maps.flat());
        want.dedup();
        got.dedup();
        if got != want {
            let (missing, extra) = crate::model::multiset_diff(&want, &got);
            j.violation = Some((
                "listed_pattern_findings_differ".into(),
                format!(
                    "argv {:?}: analysing {} for the selected patterns must yield the per-file results of exactly those patterns; missing: {}; unexpected: {}",
                    argv,
                    want_abs,
                    crate::model::show_entries(&missing, 4),
                    crate::model::show_entries(&extra, 4)
                ),
            ));
            return j;
        }
    }
    j
}

impl Property for C14 {
    fn id(&self) -> &'static str {
        "C14"
    }
    fn budget(&self, tier: Tier) -> u64 {
        match tier {
            Tier::Quick => 10_000,
            Tier::Thorough => 300_000,
        }
    }
    fn scenario(&self, ctx: &Ctx, _index: u64, rng: &mut Rng, _screen: &mut Screen) -> ScnResult {
        let mut r = ScnResult::default();
        let s = gen_setup(ctx, rng);
        let j = judge(&s, ctx);
        r.evaluations = 1;
        r.steps = j.steps;
        let argv = match &s.spec.mode {
            Mode::Proc { argv } => argv.clone(),
            _ => vec![],
        };
        let shape = format!(
            "cfg_argv_{}{}",
            if s.path_arg.is_some() { "path" } else { "nopath" },
            if s.toml.is_some() { "_toml" } else { "_notoml" }
        );
        r.fault(&shape, 1);
        r.fault("cfg_unknown_name", j.has_unknown as u64);
        r.fault("cfg_non_lowercase_name", j.non_default_casing as u64);
        r.fault(
            "cfg_contracts_dir_absent",
            (!s.spec.world.is_dir("/w/contracts")) as u64,
        );
        r.probe("unknown_name_in_toml", j.has_unknown);
        r.probe("toml_path_decides", s.path_arg.is_none() && s.toml.is_some() && !j.has_unknown);
        r.probe("path_flag_overrides_toml", s.path_arg.is_some() && s.toml.is_some());
    r.probe(
        "path_flag_spells_the_default_dir",
        s.path_arg.as_deref() == Some("./contracts") && s.toml.is_some() && !j.has_unknown,
    );
        r.probe("default_contracts_used", s.path_arg.is_none() && s.toml.is_none());
        r.probe("failed_status_seen", j.status != 0);
    r.probe(
        "configured_directory_with_upper_case_letters",
        !j.has_unknown && s.path_arg.is_none() && s.toml.as_ref().map_or(false, |t| t.path.contains("Tml")),
    );
    r.probe(
        "selected_directory_missing_while_another_exists",
        !j.has_unknown
            && match (&s.path_arg, &s.toml) {
                (Some(p), _) => !s.spec.world.is_dir(&s.spec.world.resolve(std::path::Path::new(p))),
                (None, Some(t)) => !s.spec.world.is_dir(&s.spec.world.resolve(std::path::Path::new(&t.path))),
                _ => false,
            },
    );
        r.interleavings.push(j.decisions);
        let h = hash_str(82, &format!("{:?}{:?}", argv, s.toml));
        r.states.push(mix(h ^ j.status as u64));
        if j.non_default_casing || j.has_unknown || (s.toml.is_some() && s.path_arg.is_none()) {
            r.nontrivial.push(h);
        }
        r.mixin(j.trace);
        if rng.chance(1, 12) {
            r.sample = Some(json!({"argv": argv, "toml": s.toml.as_ref().map(|t| json!({"file": t.file, "path": t.path, "optimizations": t.opt, "vulnerabilities": t.vul, "qa": t.qa})), "contracts_dir_present": s.spec.world.is_dir("/w/contracts"), "status": j.status, "trace": j.sample["decision_trace"]}));
        }
        if let Some((clause, detail)) = j.violation {
            r.violations.push(Violation {
                clause,
                detail,
                replay: json!({"kind": "run", "spec": s.spec.to_json()}),
            });
        }
        r
    }
    fn prelude(&self, ctx: &Ctx, _screen: &mut Screen) -> Option<ScnResult> {
        let mut r = ScnResult::default();
        let (bad, evals, cases) = static_checks(ctx);
        r.evaluations = evals;
        r.steps = evals;
        r.nontrivial = cases;
        r.count("table_checks", evals);
        let mut seen = BTreeSet::new();
        for (clause, detail) in bad {
            if seen.insert(format!("{}|{}", clause, detail)) && r.violations.len() < 16 {
                r.violations.push(Violation {
                    clause: clause.clone(),
                    detail,
                    replay: json!({"kind": "static", "clause": clause}),
                });
            }
        }
        Some(r)
    }
    fn exhaustive_note(&self) -> Option<String> {
        Some("the table part is complete: every documented name (docs tables + sample Solstat.toml, read at run time) x 6 casings, distinctness, default-selectability, name->detector behaviour signature; the process-run part is seeded sampling".into())
    }
    fn replay(&self, ctx: &Ctx, scn: &Value) -> Result<Option<Violation>, String> {
        match scn["kind"].as_str() {
            Some("static") => {
                let want = scn["clause"].as_str().unwrap_or("");
                let (bad, _, _) = static_checks(ctx);
                Ok(bad
                    .into_iter()
                    .find(|(c, _)| c == want)
                    .map(|(clause, detail)| Violation {
                        clause,
                        detail,
                        replay: scn.clone(),
                    }))
            }
            Some("run") => {
                let spec = RunSpec::from_json(&scn["spec"], &ctx.doc.names)?;
                let s = setup_from_spec(&spec);
                Ok(judge(&s, ctx).violation.map(|(clause, detail)| Violation {
                    clause,
                    detail,
                    replay: scn.clone(),
                }))
            }
            _ => Err("scenario.kind".into()),
        }
    }
    fn shrink(&self, ctx: &Ctx, scn: &Value) -> Vec<Value> {
        if scn["kind"].as_str() != Some("run") {
            return vec![];
        }
        let spec = match RunSpec::from_json(&scn["spec"], &ctx.doc.names) {
            Ok(s) => s,
            Err(_) => return vec![],
        };
        let mut out = vec![];
        // drop one name from a toml list
        let s = setup_from_spec(&spec);
        if let Some(t) = &s.toml {
            for (which, list) in [(0, &t.opt), (1, &t.vul), (2, &t.qa)] {
                for i in 0..list.len() {
                    let mut l = [t.opt.clone(), t.vul.clone(), t.qa.clone()];
                    l[which].remove(i);
                    let text = crate::c18::toml_text(&t.path, &l[0], &l[1], &l[2]);
                    let mut sp = spec.clone();
                    let abs = sp.world.resolve(std::path::Path::new(&t.file));
                    sp.world.put_file(&abs, text.into_bytes(), Fault::None);
                    out.push(json!({"kind": "run", "spec": sp.to_json()}));
                }
            }
        }
        let mut prot = crate::shrink::protected_paths(&spec);
        if let Some(t) = &s.toml {
            prot.push(spec.world.resolve(std::path::Path::new(&t.file)));
            prot.push(spec.world.resolve(std::path::Path::new(&t.path)));
        }
        for w in crate::shrink::shrink_world(&spec.world, &prot) {
            let mut sp = spec.clone();
            sp.world = w;
            out.push(json!({"kind": "run", "spec": sp.to_json()}));
        }
        let names: Vec<String> = spec.world.nodes.keys().cloned().collect();
        for p in crate::shrink::shrink_policy(&spec.schedule.listing, &names) {
            let mut sp = spec.clone();
            sp.schedule.listing = p;
            out.push(json!({"kind": "run", "spec": sp.to_json()}));
        }
        for p in crate::shrink::shrink_policy(&spec.schedule.iteration, &gen::all_pattern_keys()) {
            let mut sp = spec.clone();
            sp.schedule.iteration = p;
            out.push(json!({"kind": "run", "spec": sp.to_json()}));
        }
        out
    }
    fn required_probes(&self) -> Vec<&'static str> {
        vec![
            "unknown_name_in_toml",
            "toml_path_decides",
            "path_flag_overrides_toml",
            "path_flag_spells_the_default_dir",
            "selected_directory_missing_while_another_exists",
            "configured_directory_with_upper_case_letters",
            "default_contracts_used",
            "failed_status_seen",
        ]
    }
    fn rule(&self) -> String {
        "Table part (complete): for every documented name (read from /repo/docs/identified-*.md and /repo/Solstat.toml at run time) and 6 letter-casings: accepted, same pattern for all casings, distinct names -> distinct patterns, selected pattern runs by default, every default pattern selectable by a documented name (or the snake-case of its own identifier), junk names rejected, and the selected pattern behaves like the detector documented under that name on a signature corpus (every canonical fragment x every pragma). Process part (sampled): a simulated process run through the real Opts::new for argv in {none, --path/-p, --toml/-t, both in both orders} x ./contracts present/absent x toml lists = seeded subsets/orders/casings of documented names with junk names at seeded positions x toml path; a reference model gives the expected pattern lists (in order) and directory (--path, else toml path, else ./contracts); unknown name => non-zero status and no write in the journal. If the selected directory does not exist, how the run ends is not judged, but quietly analysing another directory is a violation. Non-trivial = non-lowercase casing, unknown name, or the toml's path decides; distinct = distinct (argv, toml) hash, resp. distinct (category, spelled name).".into()
    }
    fn assumptions(&self) -> Vec<String> {
        vec![
            "trusted table: configuration name -> detector function documented under that name (sim/src/c14.rs detector_rows)".into(),
            "generated toml files always carry all four keys of the sample (path, optimizations, vulnerabilities, qa); whitespace variants and near-miss spellings are not generated".into(),
            "how a run ends when the selected directory does not exist is not judged (only that no other directory is analysed instead)".into(),
            "the five lines of main() are mirrored by the driver; the simbin engine runs the real main with real argv and exit status".into(),
        ]
    }
    fn components(&self) -> Value {
        json!({
            "real": ["opts::Opts::new", "clap derive parser (try_parse_from on the simulated argv)", "toml + serde deserialisation", "str_to_* name tables and get_all_* default lists", "walkers + renderers for the effect checks"],
            "stubbed": ["argv", "process::exit (unwinds with the status)", "std::fs -> in-memory world"],
        })
    }
}
