//! Child processes with a hard time limit: whatever the code under test does, a check must end.

use std::io::Read;
use std::process::{Command, Stdio};
use std::time::{Duration, Instant};

pub struct Out {
    pub code: Option<i32>,
    pub stdout: Vec<u8>,
    pub stderr: Vec<u8>,
    pub timed_out: bool,
}

pub fn run(cmd: &mut Command, limit: Duration) -> std::io::Result<Out> {
    let mut child = cmd.stdout(Stdio::piped()).stderr(Stdio::piped()).stdin(Stdio::null()).spawn()?;
    let mut so = child.stdout.take().unwrap();
    let mut se = child.stderr.take().unwrap();
    let t1 = std::thread::spawn(move || {
        let mut b = vec![];
        let _ = so.read_to_end(&mut b);
        b
    });
    let t2 = std::thread::spawn(move || {
        let mut b = vec![];
        let _ = se.read_to_end(&mut b);
        b
    });
    let t0 = Instant::now();
    let mut timed_out = false;
    let code = loop {
        match child.try_wait()? {
            Some(st) => break st.code(),
            None => {
                if t0.elapsed() > limit {
                    let _ = child.kill();
                    let st = child.wait()?;
                    timed_out = true;
                    break st.code();
                }
                std::thread::sleep(Duration::from_millis(2));
            }
        }
    };
    Ok(Out {
        code,
        stdout: t1.join().unwrap_or_default(),
        stderr: t2.join().unwrap_or_default(),
        timed_out,
    })
}
