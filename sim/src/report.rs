//! Reading a report back (C11) and checking totals / headings (C12).
//!
//! Trusted base: the table below tying each configuration name to the module that holds its
//! explanatory section text, and the severity of the four vulnerability patterns (from the
//! property text).

use crate::pats::{by_name, defaults, snake, Cat, Entry, Flat, Pat, CATS};
use solstat::report::report_sections as rs;

pub fn section_rows() -> Vec<(Cat, &'static str, fn() -> String)> {
    use rs::optimizations as o;
    use rs::qa as q;
    use rs::vulnerabilities as v;
    vec![
        (Cat::Opt, "address_balance", o::address_balance::report_section_content as fn() -> String),
        (Cat::Opt, "address_zero", o::address_zero::report_section_content),
        (Cat::Opt, "assign_update_array_value", o::assign_update_array_value::report_section_content),
        (Cat::Opt, "bool_equals_bool", o::bool_equals_bool::report_section_content),
        (Cat::Opt, "cache_array_length", o::cache_array_length::report_section_content),
        (Cat::Opt, "constant_variables", o::constant_variable::report_section_content),
        (Cat::Opt, "immutable_variables", o::immutable_variable::report_section_content),
        (Cat::Opt, "increment_decrement", o::increment_decrement::report_section_content),
        (Cat::Opt, "memory_to_calldata", o::memory_to_calldata::report_section_content),
        (Cat::Opt, "multiple_require", o::multiple_require::report_section_content),
        (Cat::Opt, "optimal_comparison", o::optimal_comparison::report_section_content),
        (Cat::Opt, "pack_storage_variables", o::pack_storage_variables::report_section_content),
        (Cat::Opt, "pack_struct_variables", o::pack_struct_variables::report_section_content),
        (Cat::Opt, "payable_function", o::payable_function::report_section_content),
        (Cat::Opt, "private_constant", o::private_constant::report_section_content),
        (Cat::Opt, "safe_math_pre_080", o::safe_math_pre_080::report_section_content),
        (Cat::Opt, "safe_math_post_080", o::safe_math_post_080::report_section_content),
        (Cat::Opt, "shift_math", o::shift_math::report_section_content),
        (Cat::Opt, "short_revert_string", o::short_revert_string::report_section_content),
        (Cat::Opt, "solidity_keccak256", o::solidity_keccak256::report_section_content),
        (Cat::Opt, "solidity_math", o::solidity_math::report_section_content),
        (Cat::Opt, "sstore", o::sstore::report_section_content),
        (Cat::Opt, "string_errors", o::string_errors::report_section_content),
        (Cat::Vul, "divide_before_multiply", v::divide_before_multiply::report_section_content),
        (Cat::Vul, "floating_pragma", v::floating_pragma::report_section_content),
        (Cat::Vul, "unprotected_selfdestruct", v::unprotected_selfdestruct::report_section_content),
        (Cat::Vul, "unsafe_erc20_operation", v::unsafe_erc20_operation::report_section_content),
        (Cat::Qa, "constructor_order", q::constructor_order::report_section_content),
        (Cat::Qa, "private_func_leading_underscore", q::private_func_leading_underscore::report_section_content),
        (Cat::Qa, "private_vars_leading_underscore", q::private_vars_leading_underscore::report_section_content),
    ]
}

#[derive(Clone, Copy, Debug, PartialEq, Eq, PartialOrd, Ord)]
pub enum Severity {
    High,
    Medium,
    Low,
}

/// A severity heading is a markdown heading line that names exactly one of the three severities
/// (the tool prints `## High Risk` etc.; the wording around the word is decoration).
pub fn severity_of_heading(line: &str) -> Option<Severity> {
    if !line.starts_with('#') {
        return None;
    }
    let words: Vec<String> = line
        .split(|c: char| !c.is_ascii_alphabetic())
        .map(|w| w.to_ascii_lowercase())
        .collect();
    let h = words.iter().any(|w| w == "high" || w == "critical");
    let m = words.iter().any(|w| w == "medium");
    let l = words.iter().any(|w| w == "low");
    match (h, m, l) {
        (true, false, false) => Some(Severity::High),
        (false, true, false) => Some(Severity::Medium),
        (false, false, true) => Some(Severity::Low),
        _ => None,
    }
}

impl Severity {
    pub fn heading(&self) -> &'static str {
        match self {
            Severity::High => "## High Risk",
            Severity::Medium => "## Medium Risk",
            Severity::Low => "## Low Risk",
        }
    }
}

pub const SEVERITIES: [Severity; 3] = [Severity::High, Severity::Medium, Severity::Low];

/// From the property text: selfdestruct high, divide-before-multiply medium, ERC20 and pragma low.
pub fn severity_rows() -> Vec<(&'static str, Severity)> {
    vec![
        ("unprotected_selfdestruct", Severity::High),
        ("divide_before_multiply", Severity::Medium),
        ("unsafe_erc20_operation", Severity::Low),
        ("floating_pragma", Severity::Low),
    ]
}

pub struct Tables {
    /// pattern -> its section text (from the module, not from the renderer's own lookup)
    pub sections: Vec<(Pat, String)>,
    pub severity: Vec<(Pat, Severity)>,
    pub problems: Vec<String>,
}

/// Resolve a configuration name to a pattern without going through the crate's name table where
/// possible (so that a wrong arm in `str_to_*` is C14's finding and does not disturb C11/C12):
/// the default pattern whose Debug text snake-cases to the name; only if there is none (a variant
/// whose identifier does not follow the name) the crate's own table.
pub fn resolve(cat: Cat, name: &str) -> Option<Pat> {
    if let Some(p) = defaults(cat)
        .into_iter()
        .find(|p| snake(&p.debug_key()) == name)
    {
        return Some(p);
    }
    by_name(cat, name).ok()
}

thread_local! {
    static TABLES: std::rc::Rc<Tables> = std::rc::Rc::new(Tables::build_uncached());
}

/// Does the simulator have an oracle row (section text) for this pattern? Patterns without one
/// (e.g. a pattern added to solstat after these tables were written) are kept out of workloads.
pub fn has_row(p: Pat) -> bool {
    TABLES.with(|t| t.section_of(p).is_some())
}

impl Tables {
    pub fn build() -> std::rc::Rc<Tables> {
        TABLES.with(|t| t.clone())
    }
    pub fn build_uncached() -> Tables {
        let mut t = Tables {
            sections: vec![],
            severity: vec![],
            problems: vec![],
        };
        for (cat, name, f) in section_rows() {
            match resolve(cat, name) {
                Some(p) => {
                    let text = f();
                    for l in text.lines() {
                        if severity_of_heading(l).is_some()
                            || l.contains("(Total Optimizations ")
                            || l.contains("(Total Vulnerabilities ")
                        {
                            t.problems.push(format!(
                                "section text of {} contains a structural line {:?}",
                                name, l
                            ));
                        }
                    }
                    t.sections.push((p, text));
                }
                None => t
                    .problems
                    .push(format!("no pattern for configuration name {}", name)),
            }
        }
        // attribution needs: no (trimmed) section text occurs inside another one
        for (i, (p, a)) in t.sections.iter().enumerate() {
            for (j, (q, b)) in t.sections.iter().enumerate() {
                if i != j && !b.trim().is_empty() && a.contains(b.trim()) {
                    t.problems.push(format!(
                        "section text of {:?} contains the section text of {:?}",
                        p, q
                    ));
                }
            }
            if a.trim().is_empty() {
                t.problems.push(format!("section text of {:?} is empty", p));
            }
            for l in a.lines() {
                if let Some(body) = l
                    .strip_prefix("- ")
                    .or_else(|| l.strip_prefix("* "))
                    .or_else(|| l.strip_prefix("+ "))
                {
                    if let Some(c) = body.rfind(':') {
                        if body[c + 1..].parse::<i64>().is_ok() {
                            t.problems.push(format!(
                                "section text of {:?} contains an entry-like line {:?}",
                                p, l
                            ));
                        }
                    }
                }
            }
        }
        for (name, s) in severity_rows() {
            if let Some(p) = resolve(Cat::Vul, name) {
                t.severity.push((p, s));
            }
        }
        t
    }
    pub fn section_of(&self, p: Pat) -> Option<&String> {
        self.sections.iter().find(|(q, _)| *q == p).map(|(_, s)| s)
    }
    pub fn severity_of(&self, p: Pat) -> Option<Severity> {
        self.severity.iter().find(|(q, _)| *q == p).map(|(_, s)| *s)
    }
    pub fn by_label(&self, label: &str) -> Option<Pat> {
        self.sections
            .iter()
            .map(|(p, _)| *p)
            .find(|p| p.label() == label)
    }
}

#[derive(Clone, Debug)]
pub struct ParsedSection {
    /// pattern the preceding explanatory text belongs to (None = unattributable)
    pub pat: Option<Pat>,
    pub candidates: usize,
    /// byte offset of the "### Lines" line
    pub offset: usize,
    pub items: Vec<(String, String)>, // (file, line text)
    pub bad_items: Vec<String>,
}

#[derive(Clone, Debug, Default)]
pub struct Parsed {
    pub sections: Vec<ParsedSection>,
    pub total_opt: Vec<(usize, String)>, // (offset, digits)
    pub total_vul: Vec<(usize, String)>,
    pub severity_lines: Vec<(usize, Severity)>,
}

fn totals(report: &str, marker: &str) -> Vec<(usize, String)> {
    let mut out = vec![];
    let mut from = 0;
    while let Some(i) = report[from..].find(marker) {
        let start = from + i + marker.len();
        let digits: String = report[start..]
            .chars()
            .take_while(|c| c.is_ascii_digit() || *c == '-')
            .collect();
        out.push((from + i, digits));
        from = start;
    }
    out
}

/// Read a report back without relying on its decoration: an *entry* is a line `- <file>:<int>`
/// (split at the last ':'); a *section* is an occurrence of some pattern's explanatory text; an
/// entry belongs to the nearest section occurrence before it.
pub fn parse(report: &str, t: &Tables) -> Parsed {
    let mut p = Parsed::default();
    p.total_opt = totals(report, "(Total Optimizations ");
    p.total_vul = totals(report, "(Total Vulnerabilities ");
    // section occurrences
    let mut occ: Vec<(usize, Pat)> = vec![];
    for (pat, text) in &t.sections {
        let needle = text.trim();
        if needle.is_empty() {
            continue;
        }
        let mut from = 0;
        while let Some(i) = report[from..].find(needle) {
            occ.push((from + i, *pat));
            from += i + needle.len();
        }
    }
    occ.sort_by_key(|(o, _)| *o);
    for (o, pat) in &occ {
        p.sections.push(ParsedSection {
            pat: Some(*pat),
            candidates: 1,
            offset: *o,
            items: vec![],
            bad_items: vec![],
        });
    }
    let mut orphan = ParsedSection {
        pat: None,
        candidates: 0,
        offset: 0,
        items: vec![],
        bad_items: vec![],
    };
    let mut off = 0;
    for l in report.split('\n') {
        if let Some(s) = severity_of_heading(l) {
            // (lines inside a pattern's explanatory text never qualify: checked when the tables are built)
            p.severity_lines.push((off, s));
        }
        if let Some(body) = l
            .strip_prefix("- ")
            .or_else(|| l.strip_prefix("* "))
            .or_else(|| l.strip_prefix("+ "))
        {
            // which section does this line belong to?
            let idx = match occ.binary_search_by(|(o, _)| o.cmp(&off)) {
                Ok(i) => Some(i),
                Err(0) => None,
                Err(i) => Some(i - 1),
            };
            let sec = match idx {
                Some(i) => &mut p.sections[i],
                None => &mut orphan,
            };
            match body.rfind(':') {
                Some(c) if body[c + 1..].parse::<i64>().is_ok() => sec
                    .items
                    .push((body[..c].to_string(), body[c + 1..].to_string())),
                _ => sec.bad_items.push(body.to_string()),
            }
        }
        off += l.len() + 1;
    }
    if !orphan.items.is_empty() || !orphan.bad_items.is_empty() {
        p.sections.push(orphan);
    }
    p
}

#[derive(Clone, Debug)]
pub struct Finding {
    pub prop: &'static str,
    pub clause: String,
    pub detail: String,
}

/// Expand findings to (pattern label, file, line) triples.
pub fn triples(findings: &Flat) -> Vec<(String, String, i32)> {
    let mut v = vec![];
    for e in findings {
        for l in &e.lines {
            v.push((e.pat.clone(), e.file.clone(), *l));
        }
    }
    v.sort();
    v
}

/// C11 and C12 on one report. `findings` is what was handed to the renderer.
pub fn judge(findings: &Flat, report: &str, t: &Tables) -> Vec<Finding> {
    let mut out = vec![];
    let parsed = parse(report, t);

    // ---- C11: parse-back equals findings; one section per pattern with findings
    let mut back: Vec<(String, String, i32)> = vec![];
    let mut sections_per_pat: std::collections::BTreeMap<String, usize> = Default::default();
    for s in &parsed.sections {
        match s.pat {
            None => out.push(Finding {
                prop: "C11",
                clause: "section_unattributable".into(),
                detail: format!(
                    "{} entries (first {:?}) and {} malformed '- ' lines are not preceded by the explanatory section of any pattern",
                    s.items.len(),
                    s.items.first(),
                    s.bad_items.len()
                ),
            }),
            Some(p) => {
                *sections_per_pat.entry(p.label()).or_insert(0) += 1;
                for (f, l) in &s.items {
                    match l.parse::<i32>() {
                        Ok(n) => back.push((p.label(), f.clone(), n)),
                        Err(_) => out.push(Finding {
                            prop: "C11",
                            clause: "entry_malformed".into(),
                            detail: format!("entry '- {}:{}' under {:?} has no line number", f, l, p),
                        }),
                    }
                }
            }
        }
    }
    back.sort();
    let want = triples(findings);
    if back != want {
        let (missing_all, extra_all) = multiset_minus(&want, &back);
        let missing: Vec<_> = missing_all.iter().take(3).collect();
        let extra: Vec<_> = extra_all.iter().take(3).collect();
        let clause = if back.len() < want.len() {
            "entries_lost"
        } else if back.len() > want.len() {
            "entries_added"
        } else {
            "entries_misattributed"
        };
        out.push(Finding {
            prop: "C11",
            clause: clause.into(),
            detail: format!(
                "reading the report back gives {} (pattern, file, line) entries, the findings have {}; missing from report: {:?}; not in findings: {:?}",
                back.len(),
                want.len(),
                missing,
                extra
            ),
        });
    }
    let mut pats_with: std::collections::BTreeSet<String> = Default::default();
    for e in findings {
        if !e.lines.is_empty() {
            pats_with.insert(e.pat.clone());
        }
    }
    for p in &pats_with {
        let n = sections_per_pat.get(p).copied().unwrap_or(0);
        if n != 1 {
            out.push(Finding {
                prop: "C11",
                clause: "section_count".into(),
                detail: format!("pattern {} has findings but {} sections in the report", p, n),
            });
        }
    }
    for (p, n) in &sections_per_pat {
        if !pats_with.contains(p) {
            out.push(Finding {
                prop: "C11",
                clause: "section_without_findings".into(),
                detail: format!("pattern {} has {} section(s) but no findings", p, n),
            });
        }
    }

    // ---- C12: totals, parts, severity headings
    let items_in = |cat: Cat| -> usize {
        parsed
            .sections
            .iter()
            .filter(|s| s.pat.map_or(false, |p| p.cat() == cat))
            .map(|s| s.items.len())
            .sum()
    };
    let has = |cat: Cat| -> bool {
        findings
            .iter()
            .any(|e| e.pat.starts_with(cat_letter(cat)) && !e.lines.is_empty())
    };
    for (cat, tot, what) in [
        (Cat::Opt, &parsed.total_opt, "Total Optimizations"),
        (Cat::Vul, &parsed.total_vul, "Total Vulnerabilities"),
    ] {
        if has(cat) {
            if tot.len() != 1 {
                out.push(Finding {
                    prop: "C12",
                    clause: "overview_count".into(),
                    detail: format!(
                        "category {} has findings but the report has {} '({} N)' overviews",
                        cat.name(),
                        tot.len(),
                        what
                    ),
                });
            } else {
                let n = tot[0].1.parse::<i64>().unwrap_or(-1);
                let listed = items_in(cat) as i64;
                if n != listed {
                    out.push(Finding {
                        prop: "C12",
                        clause: "total_mismatch".into(),
                        detail: format!(
                            "({} {}) but {} 'file:line' entries are listed in that part",
                            what, tot[0].1, listed
                        ),
                    });
                }
                // every section of the category lies after its overview
                for s in parsed
                    .sections
                    .iter()
                    .filter(|s| s.pat.map_or(false, |p| p.cat() == cat))
                {
                    if s.offset < tot[0].0 {
                        out.push(Finding {
                            prop: "C12",
                            clause: "section_before_overview".into(),
                            detail: format!("a {} section precedes its overview", cat.name()),
                        });
                    }
                }
            }
        } else if !tot.is_empty() {
            out.push(Finding {
                prop: "C12",
                clause: "part_without_findings".into(),
                detail: format!(
                    "category {} has no findings but the report contains its overview ({} {})",
                    cat.name(),
                    what,
                    tot[0].1
                ),
            });
        }
    }
    // a category part is present iff the category has findings -- for the QA part, which carries no
    // total, and for the other two independently of their overview line: the part is there when at
    // least one section of one of the category's patterns is there
    for cat in [Cat::Vul, Cat::Opt, Cat::Qa] {
        let n_sections = parsed
            .sections
            .iter()
            .filter(|s| s.pat.map_or(false, |p| p.cat() == cat))
            .count();
        if has(cat) && n_sections == 0 {
            out.push(Finding {
                prop: "C12",
                clause: "part_missing".into(),
                detail: format!(
                    "category {} has findings but the report contains no section of any of its patterns (report: {} sections in all)",
                    cat.name(),
                    parsed.sections.len()
                ),
            });
        }
        if !has(cat) && n_sections > 0 && cat == Cat::Qa {
            out.push(Finding {
                prop: "C12",
                clause: "part_without_findings".into(),
                detail: format!("category qa has no findings but the report contains {} of its sections", n_sections),
            });
        }
    }
    // severity headings
    let mut present = [false; 3];
    for s in parsed
        .sections
        .iter()
        .filter(|s| s.pat.map_or(false, |p| p.cat() == Cat::Vul))
    {
        let p = s.pat.unwrap();
        if let Some(sev) = t.severity_of(p) {
            present[sev as usize] = true;
            let before = parsed
                .severity_lines
                .iter()
                .filter(|(o, _)| *o < s.offset)
                .last();
            match before {
                Some((_, h)) if *h == sev => {}
                other => out.push(Finding {
                    prop: "C12",
                    clause: "wrong_severity_heading".into(),
                    detail: format!(
                        "{:?} (severity {:?}) is listed under {:?}",
                        p,
                        sev,
                        other.map(|(_, h)| h.heading())
                    ),
                }),
            }
        }
    }
    for sev in SEVERITIES {
        let n = parsed
            .severity_lines
            .iter()
            .filter(|(_, h)| *h == sev)
            .count();
        let want = if present[sev as usize] { 1 } else { 0 };
        if n != want {
            out.push(Finding {
                prop: "C12",
                clause: if n > want {
                    "severity_heading_without_findings".into()
                } else {
                    "severity_heading_missing".into()
                },
                detail: format!(
                    "'{}' is printed {} time(s) but {} finding sections of that severity exist",
                    sev.heading(),
                    n,
                    if present[sev as usize] { "some" } else { "no" }
                ),
            });
        }
    }
    out
}

/// (in a but not in b, in b but not in a), as multisets; both inputs sorted.
pub fn multiset_minus<T: Ord + Clone>(a: &[T], b: &[T]) -> (Vec<T>, Vec<T>) {
    let (mut i, mut j) = (0, 0);
    let (mut only_a, mut only_b) = (vec![], vec![]);
    while i < a.len() || j < b.len() {
        if i < a.len() && j < b.len() && a[i] == b[j] {
            i += 1;
            j += 1;
        } else if j >= b.len() || (i < a.len() && a[i] < b[j]) {
            only_a.push(a[i].clone());
            i += 1;
        } else {
            only_b.push(b[j].clone());
            j += 1;
        }
    }
    (only_a, only_b)
}

pub fn cat_letter(cat: Cat) -> &'static str {
    match cat {
        Cat::Opt => "O:",
        Cat::Vul => "V:",
        Cat::Qa => "Q:",
    }
}

/// All patterns that have a section text, per category.
pub fn pats_of(t: &Tables, cat: Cat) -> Vec<Pat> {
    t.sections
        .iter()
        .map(|(p, _)| *p)
        .filter(|p| p.cat() == cat)
        .collect()
}

pub fn entry(p: Pat, file: &str, lines: &[i32]) -> Entry {
    let mut l: Vec<i32> = lines.to_vec();
    l.sort();
    l.dedup();
    Entry {
        pat: p.label(),
        file: file.to_string(),
        lines: l,
    }
}

#[allow(dead_code)]
pub fn all_cats() -> [Cat; 3] {
    CATS
}
