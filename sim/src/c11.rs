//! C11 (the report lists exactly the findings, each under its own section) and C12 (totals and
//! headings agree with the findings shown). Both read the report of a simulated run back and
//! compare it with the findings that were handed to the renderer; they differ in the clauses they
//! own. Runs: end-to-end (real walkers + real renderers over a generated tree) and synthetic
//! findings maps rendered under seeded iteration orders.

use crate::c03;
use crate::corpus::Screen;
use crate::framework::{Ctx, Property, ScnResult, Tier, Violation};
use crate::gen;
use crate::pats::{sorted, Cat, Flat, Pat};
use crate::report::{self, judge, pats_of, Tables};
use crate::rng::{hash_str, mix, Rng};
use crate::run::{run, RunSpec};
use crate::simenv::{journal_hash, Ev, OrderPolicy};
use crate::synth::{self, Synth};
use serde_json::{json, Value};

pub struct ReportProp {
    pub id: &'static str,
}

fn own(id: &str, fs: Vec<report::Finding>) -> Vec<report::Finding> {
    fs.into_iter().filter(|f| f.prop == id).collect()
}

pub fn e2e_spec(rng: &mut Rng, screen: &mut Screen) -> RunSpec {
    let (mut spec, _, _) = c03::gen_spec(rng, screen);
    spec.render = true;
    // a report left by an earlier, larger run may be lying in the working directory
    if rng.chance(1, 2) {
        let t = Tables::build();
        let stale = synth::render(&Synth {
            entries: synth::gen_entries(rng, &t),
            iteration: Default::default(),
        })
        .report
        .unwrap_or_default();
        let mut stale = stale;
        if rng.chance(1, 2) {
            stale.extend_from_slice(b"\n### Lines\n- ghost.sol:99\n- ghost.sol:100\n\n\n");
        }
        let p = crate::world::join(&spec.world.cwd, "solstat_report.md");
        spec.world.put_file(&p, stale, crate::world::Fault::None);
    }
    spec
}

/// Judge an end-to-end run: the findings are the maps the walkers returned (whatever they are --
/// their correctness is C03's business), the report is the file the run wrote.
fn judge_e2e(id: &'static str, spec: &RunSpec, t: &Tables) -> (Vec<report::Finding>, crate::run::Outcome, Flat) {
    let out = run(spec);
    let findings = sorted(out.maps.flat());
    if out.abort.is_some() {
        return (vec![], out, findings);
    }
    let fs = match out.report_bytes(&spec.world) {
        Some(b) => match String::from_utf8(b) {
            Ok(text) => own(id, judge(&findings, &text, t)),
            Err(_) => vec![report::Finding {
                prop: "C11",
                clause: "report_not_utf8".into(),
                detail: "the report is not valid UTF-8".into(),
            }],
        },
        None => vec![],
    };
    (own(id, fs), out, findings)
}

fn judge_synth(id: &'static str, s: &Synth, t: &Tables) -> (Vec<report::Finding>, synth::Rendered) {
    let r = synth::render(s);
    let findings = synth::flat_of(&s.entries);
    let fs = match (&r.abort, &r.report) {
        (None, Some(b)) => match std::str::from_utf8(b) {
            Ok(text) => own(id, judge(&findings, text, t)),
            Err(_) => vec![],
        },
        (Some(a), _) => own(
            id,
            vec![report::Finding {
                prop: "C11",
                clause: "render_aborted".into(),
                detail: format!("rendering {} findings aborted: {:?}", findings.len(), a),
            }],
        ),
        (None, None) => own(
            id,
            vec![report::Finding {
                prop: "C11",
                clause: "no_report".into(),
                detail: "generate_report returned without writing solstat_report.md".into(),
            }],
        ),
    };
    (fs, r)
}

fn nontrivial_findings(findings: &Flat, id: &str) -> bool {
    let pats: std::collections::BTreeSet<&String> = findings.iter().map(|e| &e.pat).collect();
    if id == "C11" {
        pats.len() >= 2 && findings.len() > pats.len()
    } else {
        // C12: a vulnerability part with at least one pattern plus something else
        findings.iter().any(|e| e.pat.starts_with("V:")) && pats.len() >= 2
    }
}

/// The complete space of C12's quantifier: 16 subsets of the four vulnerability patterns x 24
/// iteration orders x 2 multiplicity shapes.
fn exhaustive_vuln(id: &'static str, t: &Tables) -> ScnResult {
    let mut r = ScnResult::default();
    let vps: Vec<Pat> = pats_of(t, Cat::Vul);
    if vps.len() != 4 {
        r.harness_error = Some(format!(
            "expected 4 vulnerability patterns with section texts, found {}",
            vps.len()
        ));
        return r;
    }
    let mut perms: Vec<Vec<usize>> = vec![];
    permute(&mut vec![0, 1, 2, 3], 0, &mut perms);
    let mut keys: Vec<String> = vps.iter().map(|p| p.debug_key()).collect();
    keys.sort();
    for subset in 0u32..16 {
        for perm in &perms {
            for shape in 0..2 {
                let mut entries = vec![];
                for (i, p) in vps.iter().enumerate() {
                    if subset & (1 << i) != 0 {
                        if shape == 0 {
                            entries.push((*p, "a.sol".to_string(), vec![3]));
                        } else {
                            entries.push((*p, "a.sol".to_string(), vec![3, 9, 27]));
                            entries.push((*p, "x:1.sol".to_string(), vec![1]));
                            entries.push((*p, "b.sol".to_string(), vec![2, 4]));
                        }
                    }
                }
                let mut pol = OrderPolicy::default();
                for (pos, ki) in perm.iter().enumerate() {
                    pol.ranks.insert(keys[*ki].clone(), pos as u64);
                }
                let s = Synth {
                    entries,
                    iteration: pol,
                };
                let (fs, rend) = judge_synth(id, &s, t);
                r.evaluations += 1;
                r.steps += rend.journal.len() as u64 + 1;
                r.count("exhaustive_vulnerability_cases", 1);
                if subset != 0 {
                    r.nontrivial.push(hash_str(31, &s.to_json().to_string()));
                }
                r.interleavings.push(mix(
                    hash_str(32, &format!("{:?}", perm)) ^ subset as u64,
                ));
                let only_hm = subset != 0
                    && vps.iter().enumerate().all(|(i, p)| {
                        subset & (1 << i) == 0
                            || t.severity_of(*p) != Some(report::Severity::Low)
                    });
                r.probe("only_high_or_medium", only_hm);
                let all3 = [report::Severity::High, report::Severity::Medium, report::Severity::Low]
                    .iter()
                    .all(|sv| {
                        vps.iter()
                            .enumerate()
                            .any(|(i, p)| subset & (1 << i) != 0 && t.severity_of(*p) == Some(*sv))
                    });
                r.probe("all_three_severities", all3);
                for f in fs {
                    if r.violations.len() < 4 {
                        r.violations.push(Violation {
                            clause: f.clause,
                            detail: f.detail,
                            replay: json!({"kind": "synthetic", "synth": s.to_json()}),
                        });
                    }
                }
            }
        }
    }
    r
}

/// Every unordered pair of patterns (all categories) x both iteration orders x two shapes: a small
/// complete sub-space that makes "two patterns interfere in the renderer" a deterministic find.
fn exhaustive_pairs(id: &'static str, t: &Tables) -> ScnResult {
    let mut r = ScnResult::default();
    let all: Vec<Pat> = t.sections.iter().map(|(p, _)| *p).collect();
    for i in 0..all.len() {
        for k in (i + 1)..all.len() {
            for order in 0..2 {
                for shape in 0..2 {
                    let (a, b) = (all[i], all[k]);
                    let entries = if shape == 0 {
                        // the very same entry text under both patterns
                        vec![(a, "a.sol".to_string(), vec![5]), (b, "a.sol".to_string(), vec![5])]
                    } else {
                        vec![
                            (a, "b.sol".to_string(), vec![2, 3]),
                            (b, "a.sol".to_string(), vec![1]),
                            (a, "a.sol".to_string(), vec![1]),
                            (b, "x:1.sol".to_string(), vec![0, 7]),
                        ]
                    };
                    let mut pol = OrderPolicy::default();
                    let (ka, kb) = (a.debug_key(), b.debug_key());
                    pol.ranks.insert(ka, if order == 0 { 0 } else { 1 });
                    pol.ranks.insert(kb, if order == 0 { 1 } else { 0 });
                    let s = Synth {
                        entries,
                        iteration: pol,
                    };
                    let (fs, rend) = judge_synth(id, &s, t);
                    r.evaluations += 1;
                    r.steps += rend.journal.len() as u64 + 1;
                    r.count("exhaustive_pattern_pair_cases", 1);
                    r.nontrivial.push(hash_str(33, &s.to_json().to_string()));
                    for f in fs {
                        if r.violations.len() < 6 {
                            r.violations.push(Violation {
                                clause: f.clause,
                                detail: f.detail,
                                replay: json!({"kind": "synthetic", "synth": s.to_json()}),
                            });
                        }
                    }
                }
            }
        }
    }
    r
}

/// Judge a history: the report after each step must be the report of that step's findings.
fn judge_history(id: &'static str, steps: &[Synth], t: &Tables) -> Option<(usize, report::Finding)> {
    let rendered = synth::render_seq(steps);
    for (i, (s, r)) in steps.iter().zip(rendered.iter()).enumerate() {
        let findings = synth::flat_of(&s.entries);
        let fs = match (&r.abort, &r.report) {
            (None, Some(b)) => match std::str::from_utf8(b) {
                Ok(text) => own(id, judge(&findings, text, t)),
                Err(_) => vec![],
            },
            (Some(a), _) => own(id, vec![report::Finding { prop: "C11", clause: "render_aborted".into(), detail: format!("rendering step {} of a history aborted: {:?}", i, a) }]),
            (None, None) => own(id, vec![report::Finding { prop: "C11", clause: "no_report".into(), detail: format!("step {} of a history returned without a report", i) }]),
        };
        if let Some(mut f) = fs.into_iter().next() {
            f.detail = format!("step {} of {} renderings in one process and working directory: {}", i + 1, steps.len(), f.detail);
            return Some((i, f));
        }
    }
    None
}

/// Seeded histories of renderings, run one at a time (nothing else renders meanwhile).
fn histories(id: &'static str, t: &Tables, seed: u64, n: usize) -> ScnResult {
    let mut r = ScnResult::default();
    let mut rng = Rng::new(crate::rng::stream_seed(seed, "C11-histories", 0));
    for _ in 0..n {
        let steps = synth::gen_history(&mut rng, t);
        r.evaluations += steps.len() as u64;
        r.steps += steps.len() as u64;
        r.count("renderings_in_histories", steps.len() as u64);
        r.fault("re_rendering_in_same_process_and_directory", steps.len() as u64 - 1);
        if let Some((_, f)) = judge_history(id, &steps, t) {
            if r.violations.len() < 4 {
                r.violations.push(Violation {
                    clause: f.clause,
                    detail: f.detail,
                    replay: json!({"kind": "history", "steps": steps.iter().map(|s| s.to_json()).collect::<Vec<_>>()}),
                });
            }
        }
    }
    r
}

fn merge(mut a: ScnResult, b: ScnResult) -> ScnResult {
    a.evaluations += b.evaluations;
    a.steps += b.steps;
    a.nontrivial.extend(b.nontrivial);
    a.interleavings.extend(b.interleavings);
    for (k, v) in b.extra {
        *a.extra.entry(k).or_insert(0) += v;
    }
    for (k, v) in b.probes {
        *a.probes.entry(k).or_insert(0) += v;
    }
    a.violations.extend(b.violations);
    if a.harness_error.is_none() {
        a.harness_error = b.harness_error;
    }
    a
}

fn permute(v: &mut Vec<usize>, k: usize, out: &mut Vec<Vec<usize>>) {
    if k == v.len() {
        out.push(v.clone());
        return;
    }
    for i in k..v.len() {
        v.swap(k, i);
        permute(v, k + 1, out);
        v.swap(k, i);
    }
}

impl Property for ReportProp {
    fn id(&self) -> &'static str {
        self.id
    }
    fn budget(&self, tier: Tier) -> u64 {
        match tier {
            Tier::Quick => 12_000,
            Tier::Thorough => 400_000,
        }
    }
    fn scenario(&self, _ctx: &Ctx, _index: u64, rng: &mut Rng, screen: &mut Screen) -> ScnResult {
        let mut r = ScnResult::default();
        let t = Tables::build();
        if !t.problems.is_empty() {
            r.harness_error = Some(format!("trusted tables: {}", t.problems.join("; ")));
            return r;
        }
        r.evaluations = 1;
        if rng.chance(1, 2) {
            let spec = e2e_spec(rng, screen);
            let (fs, out, findings) = judge_e2e(self.id, &spec, &t);
            r.steps = out.journal.len() as u64 + 4;
            r.count("end_to_end_runs", 1);
            r.fault(
                "listing_perm",
                out.journal.iter().filter(|e| matches!(e, Ev::ReadDir { .. })).count() as u64,
            );
            r.fault(
                "iter_perm",
                out.journal.iter().filter(|e| matches!(e, Ev::IterOrder { .. })).count() as u64,
            );
            let dh = c03::decision_hash(&out);
            r.interleavings.push(dh);
            let fh = hash_str(21, &format!("{:?}", findings));
            r.states.push(fh);
            if nontrivial_findings(&findings, self.id) {
                r.nontrivial.push(mix(fh ^ dh));
            }
            probes(&mut r, &findings, &t);
            r.mixin(journal_hash(&out.journal));
            r.mixin(hash_str(22, &format!("{:?}", out.report_bytes(&spec.world))));
            if rng.chance(1, 16) && !findings.is_empty() {
                r.sample = Some(json!({"kind": "end_to_end", "run": spec.sample(&out), "findings": findings.len()}));
            }
            for f in fs {
                r.violations.push(Violation {
                    clause: f.clause,
                    detail: f.detail,
                    replay: json!({"kind": "e2e", "spec": spec.to_json()}),
                });
            }
        } else {
            let entries = synth::gen_entries(rng, &t);
            let im = rng.below(4);
            let s = Synth {
                entries,
                iteration: gen::gen_iteration(rng, im),
            };
            let (fs, rend) = judge_synth(self.id, &s, &t);
            let findings = synth::flat_of(&s.entries);
            r.steps = rend.journal.len() as u64 + 1;
            r.count("synthetic_maps", 1);
            r.fault(
                "iter_perm",
                rend.journal.iter().filter(|e| matches!(e, Ev::IterOrder { .. })).count() as u64,
            );
            let dh = {
                let mut h = 3u64;
                for e in &rend.journal {
                    if let Ev::IterOrder { .. } = e {
                        h = mix(h ^ hash_str(2, &e.render()));
                    }
                }
                h
            };
            r.interleavings.push(dh);
            let fh = hash_str(21, &format!("{:?}", findings));
            r.states.push(fh);
            if nontrivial_findings(&findings, self.id) {
                r.nontrivial.push(mix(fh ^ dh));
            }
            probes(&mut r, &findings, &t);
            r.mixin(journal_hash(&rend.journal));
            r.mixin(hash_str(22, &format!("{:?}", rend.report)));
            if rng.chance(1, 16) && !findings.is_empty() {
                r.sample = Some(json!({
                    "kind": "synthetic",
                    "findings": findings.iter().take(6).map(|e| format!("({}, {}, {:?})", e.pat, e.file, e.lines)).collect::<Vec<_>>(),
                    "iteration_orders": rend.journal.iter().filter(|e| matches!(e, Ev::IterOrder{..})).map(|e| e.render()).collect::<Vec<_>>(),
                    "report_bytes": rend.report.as_ref().map(|b| b.len()),
                }));
            }
            for f in fs {
                r.violations.push(Violation {
                    clause: f.clause,
                    detail: f.detail,
                    replay: json!({"kind": "synthetic", "synth": s.to_json()}),
                });
            }
        }
        r
    }
    fn prelude(&self, ctx: &Ctx, _screen: &mut Screen) -> Option<ScnResult> {
        let t = Tables::build();
        let n = if ctx.tier == crate::framework::Tier::Thorough { 3000 } else { 400 };
        let h = histories(self.id, &t, ctx.seed, n);
        if self.id == "C12" {
            Some(merge(merge(exhaustive_vuln(self.id, &t), exhaustive_pairs(self.id, &t)), h))
        } else {
            Some(merge(exhaustive_pairs(self.id, &t), h))
        }
    }
    fn exhaustive_note(&self) -> Option<String> {
        if self.id == "C12" {
            Some("two sub-spaces are enumerated completely: (1) 16 subsets of the four vulnerability patterns x 24 iteration orders x 2 multiplicity shapes (768 cases); (2) every unordered pair of the 30 patterns x both iteration orders x 2 shapes (1740 cases). Everything else is seeded sampling".into())
        } else {
            Some("one sub-space is enumerated completely: every unordered pair of the 30 patterns x both iteration orders x 2 shapes (1740 cases). Everything else is seeded sampling".into())
        }
    }
    fn replay(&self, ctx: &Ctx, scn: &Value) -> Result<Option<Violation>, String> {
        let t = Tables::build();
        match scn["kind"].as_str() {
            Some("e2e") => {
                let spec = RunSpec::from_json(&scn["spec"], &ctx.doc.names)?;
                let (fs, _, _) = judge_e2e(self.id, &spec, &t);
                Ok(fs.into_iter().next().map(|f| Violation {
                    clause: f.clause,
                    detail: f.detail,
                    replay: scn.clone(),
                }))
            }
            Some("synthetic") => {
                let s = Synth::from_json(&scn["synth"], &ctx.doc.names)?;
                let (fs, _) = judge_synth(self.id, &s, &t);
                Ok(fs.into_iter().next().map(|f| Violation {
                    clause: f.clause,
                    detail: f.detail,
                    replay: scn.clone(),
                }))
            }
            Some("history") => {
                let mut steps = vec![];
                for s in scn["steps"].as_array().ok_or("steps")? {
                    steps.push(Synth::from_json(s, &ctx.doc.names)?);
                }
                Ok(judge_history(self.id, &steps, &t).map(|(_, f)| Violation {
                    clause: f.clause,
                    detail: f.detail,
                    replay: scn.clone(),
                }))
            }
            _ => Err("scenario.kind".into()),
        }
    }
    fn shrink(&self, ctx: &Ctx, scn: &Value) -> Vec<Value> {
        match scn["kind"].as_str() {
            Some("history") => {
                // drop a step, or an entry from every step that holds it
                let steps: Vec<Value> = scn["steps"].as_array().cloned().unwrap_or_default();
                let mut out = vec![];
                if steps.len() > 2 {
                    for i in 0..steps.len() {
                        let mut v = steps.clone();
                        v.remove(i);
                        out.push(json!({"kind": "history", "steps": v}));
                    }
                }
                if let Some(first) = steps.first() {
                    for e in first["entries"].as_array().cloned().unwrap_or_default() {
                        let v: Vec<Value> = steps
                            .iter()
                            .map(|s| {
                                let mut s = s.clone();
                                let kept: Vec<Value> = s["entries"].as_array().cloned().unwrap_or_default().into_iter().filter(|x| *x != e).collect();
                                s["entries"] = json!(kept);
                                s
                            })
                            .collect();
                        out.push(json!({"kind": "history", "steps": v}));
                    }
                }
                out
            }
            Some("e2e") => match RunSpec::from_json(&scn["spec"], &ctx.doc.names) {
                Ok(s) => crate::shrink::shrink_runspec(&s)
                    .into_iter()
                    .map(|x| json!({"kind": "e2e", "spec": x.to_json()}))
                    .collect(),
                Err(_) => vec![],
            },
            Some("synthetic") => match Synth::from_json(&scn["synth"], &ctx.doc.names) {
                Ok(s) => s
                    .shrink()
                    .into_iter()
                    .map(|x| json!({"kind": "synthetic", "synth": x.to_json()}))
                    .collect(),
                Err(_) => vec![],
            },
            _ => vec![],
        }
    }
    fn required_probes(&self) -> Vec<&'static str> {
        if self.id == "C12" {
            vec![
                "only_high_or_medium",
                "all_three_severities",
                "category_absent",
                "more_than_256_entries",
                "more_than_65536_entries",
            ]
        } else {
            vec![
                "same_file_under_two_patterns",
                "name_with_colon",
                "many_files_one_pattern",
                "more_than_256_entries",
                "more_than_65536_entries",
            ]
        }
    }
    fn rule(&self) -> String {
        if self.id == "C11" {
            "Each evaluation renders one findings map through the real generate_report under a seeded iteration order and reads the report back: (a) end-to-end, findings = whatever the real walkers returned for a generated tree under a seeded listing schedule; (b) synthetic maps (any subset of patterns, 1-6 files per pattern, names with ':' / spaces / multi-byte / heading-like text, 1-8 lines incl. 0). Oracle: the multiset of (pattern, file, line) parsed back (every line '- <file>:<int>', split at the last ':', attributed to the nearest explanatory section text before it; no other decoration of the report is assumed) equals the findings; exactly one section per pattern with findings, none otherwise. Non-trivial = >=2 patterns and some pattern with >=2 files; distinct = distinct hash of (findings, iteration orders).".into()
        } else {
            "Same runs as C11, judged for totals and headings: '(Total Optimizations N)' / '(Total Vulnerabilities N)' equals the number of entries listed under sections of that category; an overview is present iff the category has findings; every vulnerability section lies under the heading of its severity; a severity heading is printed iff a section of that severity exists. Additionally the complete sub-space 16 vulnerability-pattern subsets x 24 iteration orders x 2 multiplicity shapes (768 cases). Non-trivial = a vulnerability pattern plus at least one other pattern; distinct = distinct hash of (findings, iteration orders).".into()
        }
    }
    fn assumptions(&self) -> Vec<String> {
        vec![
            "trusted table: configuration name -> module holding the explanatory section text (sim/src/report.rs section_rows); entries are recognised as lines of the form '- <file>:<int>'".into(),
            "trusted table: severity of the four vulnerability patterns, taken from the property text".into(),
            "findings maps have at least one file per pattern and one line per file (the shapes analyze_dir can produce)".into(),
            "the input space is sampled by a seeded generator; simulation contributes the iteration/listing orders under which every map is rendered".into(),
        ]
    }
    fn components(&self) -> Value {
        json!({
            "real": ["report::generation::generate_report", "generate_{vulnerability,optimization,qa}_report", "report_sections::*", "analyze_dir + detectors (end-to-end half)"],
            "stubbed": ["HashMap iteration order -> seeded permutation (SeamMap)", "fs::write -> in-memory file", "std::fs::read_dir -> in-memory tree (end-to-end half)"],
        })
    }
}

fn probes(r: &mut ScnResult, findings: &Flat, t: &Tables) {
    let _ = t;
    let mut by_file: std::collections::BTreeMap<&String, std::collections::BTreeSet<&String>> =
        Default::default();
    let mut by_pat: std::collections::BTreeMap<&String, usize> = Default::default();
    for e in findings {
        by_file.entry(&e.file).or_default().insert(&e.pat);
        *by_pat.entry(&e.pat).or_insert(0) += 1;
    }
    r.probe(
        "same_file_under_two_patterns",
        by_file.values().any(|s| s.len() >= 2),
    );
    r.probe("name_with_colon", findings.iter().any(|e| e.file.contains(':')));
    r.probe("many_files_one_pattern", by_pat.values().any(|n| *n >= 3));
    let total: usize = findings.iter().map(|e| e.lines.len()).sum();
    r.probe("more_than_256_entries", total > 256);
    r.probe("more_than_65536_entries", total > 65_536);
    let cats: std::collections::BTreeSet<&str> = findings.iter().map(|e| &e.pat[..2]).collect();
    r.probe("category_absent", cats.len() < 3 && !cats.is_empty());
    let sev = |s: report::Severity| {
        findings.iter().any(|e| {
            t.by_label(&e.pat)
                .and_then(|p| t.severity_of(p))
                .map_or(false, |x| x == s)
        })
    };
    let (h, m, l) = (
        sev(report::Severity::High),
        sev(report::Severity::Medium),
        sev(report::Severity::Low),
    );
    r.probe("all_three_severities", h && m && l);
    r.probe("only_high_or_medium", (h || m) && !l);
}
