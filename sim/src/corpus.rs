//! Workload texts: small Solidity files composed from canonical pattern fragments (DESIGN §8).
//! Every generated text is screened before use: it must parse and all default detectors must
//! return without panicking when called directly. Screening uses the code under test only as a
//! filter on the workload, never as the judge of a claimed property.

use crate::pats::{analyze_file, defaults, Pat, CATS};
use crate::rng::{hash_str, Rng};
use std::collections::HashMap;

pub struct Frag {
    pub key: &'static str,
    pub body: &'static str,
    pub ctor: bool,
    pub using: bool,
}

const fn f(key: &'static str, body: &'static str) -> Frag {
    Frag {
        key,
        body,
        ctor: false,
        using: false,
    }
}

/// `$` is replaced by a per-file unique suffix so that names never clash.
pub const FRAGS: &[Frag] = &[
    f("address_balance", "    function ab$() public view returns (uint256) {\n        return address(this).balance;\n    }\n"),
    f("address_zero", "    function az$(address a) public pure returns (bool) {\n        return a == address(0);\n    }\n"),
    f("assign_update_array_value", "    uint256[] arr$;\n    function au$() public {\n        arr$[0] = arr$[0] + 1;\n    }\n"),
    f("bool_equals_bool", "    function bb$(bool b) public pure returns (bool) {\n        if (b == true) {\n            return true;\n        }\n        return false;\n    }\n"),
    f("cache_array_length", "    uint256[] cal$;\n    function cl$() public {\n        for (uint256 i = 0; i < cal$.length; i++) {}\n    }\n"),
    f("constant_variables", "    uint256 k$ = 5;\n"),
    Frag { key: "immutable_variables", body: "    address o$;\n    constructor() {\n        o$ = msg.sender;\n    }\n", ctor: true, using: false },
    f("increment_decrement", "    function id$(uint256 i) public pure {\n        i++;\n    }\n"),
    f("memory_to_calldata", "    function mc$(uint256[] memory xs) external pure returns (uint256) {\n        return xs.length;\n    }\n"),
    f("multiple_require", "    function mr$(uint256 a, uint256 b) public pure {\n        require(a > 0 && b > 0);\n    }\n"),
    f("optimal_comparison", "    function oc$(uint256 a, uint256 b) public pure returns (bool) {\n        return a >= b;\n    }\n"),
    f("pack_storage_variables", "    uint128 p$;\n    uint256 q$;\n    uint128 r$;\n"),
    f("pack_struct_variables", "    struct S$ {\n        uint128 p;\n        uint256 q;\n        uint128 r;\n    }\n"),
    f("payable_function", "    function pf$() public {\n    }\n"),
    f("private_constant", "    uint256 public constant K$ = 1;\n"),
    Frag { key: "safe_math", body: "    using SafeMath for uint256;\n    function sm$(uint256 a, uint256 b) public pure returns (uint256) {\n        return a.add(b);\n    }\n", ctor: false, using: true },
    f("shift_math", "    function sh$(uint256 a) public pure returns (uint256) {\n        return a * 2;\n    }\n"),
    f("long_revert_string", "    function rl$(bool c) public pure {\n        require(c, \"this revert string is definitely longer than thirty two bytes\");\n    }\n"),
    f("short_string_error", "    function rs$(bool c) public pure {\n        require(c, \"msg\");\n    }\n"),
    f("solidity_keccak256", "    function kk$(uint256 a) public pure returns (bytes32) {\n        return keccak256(abi.encode(a));\n    }\n"),
    f("solidity_math", "    function ma$(uint256 a, uint256 b) public pure returns (uint256) {\n        return a + b;\n    }\n"),
    f("sstore", "    uint256 x$;\n    function ss$() public {\n        x$ = 1;\n    }\n"),
    f("unsafe_erc20_operation", "    function tr$(address t, address to) public {\n        IERC20(t).transfer(to, 1);\n    }\n"),
    f("unprotected_selfdestruct", "    function kill$() external {\n        selfdestruct(payable(address(0)));\n    }\n"),
    f("divide_before_multiply", "    function dm$(uint256 a, uint256 b, uint256 c) public pure returns (uint256) {\n        return a / b * c;\n    }\n"),
    Frag { key: "constructor_order", body: "    function co$() public {}\n    constructor() {}\n", ctor: true, using: false },
    f("private_vars_leading_underscore", "    uint256 private v$;\n"),
    f("private_func_leading_underscore", "    function h$() internal {}\n"),
    f("quiet_view", "    function _q$() internal pure returns (uint256) {\n        return 1;\n    }\n"),
    // expressions broken over several lines: nested matches begin on different lines
    f("multiline_math", "    function ml$(uint256 a, uint256 b, uint256 c) public pure returns (uint256) {\n        return (a * b) /\n            (c + a) -\n            (b /\n                2);\n    }\n"),
    f("multiline_require", "    function mq$(uint256 a, uint256 b) public pure {\n        require(\n            a > 0 &&\n                b >= a,\n            \"both amounts must be positive and ordered, otherwise revert\"\n        );\n    }\n"),
    // one state-variable name declared with different attributes: contracts of one file that use
    // different members of this family (in "clash" mode) declare the same name differently
    f("clash_plain", "    uint256 shared$ = 5;\n"),
    f("clash_private", "    uint256 private shared$;\n    function setShared$(uint256 v) public {\n        shared$ = v;\n    }\n"),
    f("clash_constant", "    uint256 public constant shared$ = 1;\n"),
    // writes the shared name without declaring it (an heir of the declaring contract would)
    f("clash_writer", "    function pokeShared$(uint256 v) public {\n        shared$ = v;\n    }\n"),
    f("clash_address", "    address internal shared$;\n    function whoShared$() public view returns (address) {\n        return shared$;\n    }\n"),
    // constructs beyond plain functions and state variables
    f("modifier_guard", "    modifier onlyPos$(uint256 a) {\n        require(a > 0, \"neg\");\n        _;\n    }\n    function mg$(uint256 a) public onlyPos$(a) {\n    }\n"),
    f("event_emit", "    event Ev$(address indexed who, uint256 amount);\n    function ee$(uint256 a) public {\n        emit Ev$(msg.sender, a + 1);\n    }\n"),
    f("struct_mapping", "    struct Acct$ {\n        uint64 a;\n        uint256 b;\n        uint64 c;\n    }\n    mapping(address => Acct$) accts$;\n    function sg$(address who) public view returns (uint256) {\n        return accts$[who].b;\n    }\n"),
    f("unchecked_block", "    function ub$(uint256 a) public pure returns (uint256) {\n        unchecked {\n            a++;\n            return a * 4;\n        }\n    }\n"),
    f("custom_error", "    error Bad$(uint256 a);\n    function ce$(uint256 a) public pure {\n        if (a == 0) {\n            revert Bad$(a);\n        }\n    }\n"),
    f("while_loop", "    function wl$(uint256 n) public pure returns (uint256 s) {\n        uint256 i = 0;\n        while (i < n) {\n            s += i;\n            ++i;\n        }\n    }\n"),
    f("ternary", "    function tn$(uint256 a, uint256 b) public pure returns (uint256) {\n        return a > b ? a - b : b - a;\n    }\n"),
    f("try_catch", "    function tc$(address t) public returns (bool) {\n        try IERC20(t).transfer(msg.sender, 1) returns (bool ok) {\n            return ok;\n        } catch {\n            return false;\n        }\n    }\n"),
    f("assembly_block", "    function asm$(uint256 a) public pure returns (uint256 r) {\n        assembly {\n            r := add(a, 1)\n        }\n    }\n"),
    f("enum_decl", "    enum Mode$ { Off, On }\n    Mode$ mode$;\n    function em$() public {\n        mode$ = Mode$.On;\n    }\n"),
    f("nested_calls", "    function nc$(uint256 a, uint256 b) public pure returns (bytes32) {\n        return keccak256(abi.encodePacked(a + b, keccak256(abi.encodePacked(b * 2))));\n    }\n"),
    f("immutable_decl", "    uint256 immutable im$ = 7;\n    uint256 constant CN$ = 9;\n"),
    f("compound_assign", "    uint256 total$;\n    function dc$(uint256 a) public {\n        total$ += a;\n        total$ -= 1;\n        delete total$;\n    }\n"),
    f("array_ops", "    address[] list$;\n    function ao$(address a) public {\n        list$.push(a);\n        for (uint256 i; i < list$.length; ++i) {\n            if (list$[i] == address(0)) {\n                list$[i] = a;\n            }\n        }\n    }\n"),
    f("payable_receive", "    function dep$() external payable {\n        require(msg.value > 0 && msg.sender != address(0), \"no value\");\n    }\n"),
    f("multiline_call", "    function mk$(address t, address to, uint256 a) public {\n        IERC20(t)\n            .transfer(\n                to,\n                a * 4\n            );\n    }\n"),
];

/// A text with several hundred matches of single patterns (more than any per-file cap a change
/// might introduce).
pub fn many_matches_text(n: usize) -> String {
    let mut s = String::from("pragma solidity 0.8.16;\n\ncontract Many {\n    uint256 x;\n    function f(uint256 i, uint256 a) public {\n");
    for k in 0..n {
        match k % 3 {
            0 => s.push_str("        i++;\n"),
            1 => s.push_str("        x = a + i;\n"),
            _ => s.push_str("        x = a * 2;\n"),
        }
    }
    s.push_str("    }\n}\n");
    s
}

pub const PRAGMAS: &[&str] = &[
    "0.7.6", "0.8.3", "^0.8.16", "0.8.16", "0.8.4", "^0.8.4", "0.6.12", "^0.7.0",
];

/// Shape of one generated file: which pragma and which fragments in which contracts.
#[derive(Clone, Debug)]
pub struct TextSpec {
    pub pragma: usize,
    /// per contract: indices into FRAGS
    pub contracts: Vec<Vec<usize>>,
    pub spdx: bool,
    pub blank_lines: Vec<u8>,
    /// the contracts of the file reuse the same names (state variables, functions): every
    /// fragment gets the same suffix in every contract
    pub clash: bool,
    /// per contract: 0 contract, 1 abstract contract, 2 library, 3 contract inheriting the previous
    pub kinds: Vec<u8>,
    /// file-level items after the pragma: indices into EXTRAS
    pub extras: Vec<u8>,
}

/// File-level items other than contracts.
pub const EXTRAS: &[&str] = &[
    "import \"./Other.sol\";\n",
    "import {A, B} from \"../lib/AB.sol\";\n",
    "interface IERC20 {\n    function transfer(address to, uint256 amount) external returns (bool);\n}\n",
    "struct Point {\n    uint128 x;\n    uint256 y;\n    uint128 z;\n}\n",
    "error Unauthorized(address who);\n",
    "uint256 constant FILE_LEVEL = 3;\n",
    "pragma abicoder v2;\n",
    "/* block comment\n   address(0) i++ a == true\n*/\n",
    "library SafeMath {\n    function add(uint256 a, uint256 b) internal pure returns (uint256) {\n        return a + b;\n    }\n}\n",
    "enum Side { Buy, Sell }\n",
];

pub fn render(spec: &TextSpec) -> String {
    let mut s = String::new();
    if spec.spdx {
        s.push_str("// SPDX-License-Identifier: MIT\n");
    }
    if spec.pragma % 3 == 1 && spec.spdx {
        // non-ASCII bytes in a comment: still plain Solidity
        s.push_str("// \u{8a2d}\u{8a08}\u{66f8} \u{2014} na\u{ef}ve \u{1f600}\n");
    }
    s.push_str(&format!("pragma solidity {};\n", PRAGMAS[spec.pragma % PRAGMAS.len()]));
    for e in &spec.extras {
        s.push_str(EXTRAS[*e as usize % EXTRAS.len()]);
    }
    let mut uniq = 0usize;
    for (ci, frags) in spec.contracts.iter().enumerate() {
        let blanks = spec.blank_lines.get(ci).copied().unwrap_or(1) as usize;
        for _ in 0..blanks {
            s.push('\n');
        }
        match spec.kinds.get(ci).copied().unwrap_or(0) {
            1 => s.push_str(&format!("abstract contract C{} {{\n", ci)),
            2 => s.push_str(&format!("library C{} {{\n", ci)),
            3 if ci > 0 => s.push_str(&format!("contract C{} is C{} {{\n", ci, ci - 1)),
            _ => s.push_str(&format!("contract C{} {{\n", ci)),
        }
        let mut have_ctor = false;
        let mut have_using = false;
        let mut seen_keys: Vec<&str> = vec![];
        for &fi in frags {
            let fr = &FRAGS[fi % FRAGS.len()];
            if spec.clash {
                // within one contract a name is declared once
                let fam = if fr.key.starts_with("clash_") { "clash_" } else { fr.key };
                if seen_keys.contains(&fam) {
                    continue;
                }
                seen_keys.push(fam);
            }
            if fr.ctor {
                if have_ctor {
                    continue;
                }
                have_ctor = true;
            }
            if fr.using {
                if have_using {
                    continue;
                }
                have_using = true;
            }
            uniq += 1;
            if spec.clash {
                s.push_str(&fr.body.replace('$', "x"));
            } else {
                s.push_str(&fr.body.replace('$', &format!("{}", uniq)));
            }
        }
        s.push_str("}\n");
    }
    s
}

fn gen_kinds(rng: &mut Rng, n: usize) -> Vec<u8> {
    (0..n).map(|_| if rng.chance(1, 3) { rng.range(1, 3) as u8 } else { 0 }).collect()
}

fn gen_extras(rng: &mut Rng) -> Vec<u8> {
    if rng.chance(2, 3) {
        return vec![];
    }
    (0..rng.range(1, 3)).map(|_| rng.below(EXTRAS.len()) as u8).collect()
}

fn clash_family() -> Vec<usize> {
    (0..FRAGS.len()).filter(|&i| FRAGS[i].key.starts_with("clash_")).collect()
}

/// Several contracts in one file that declare the same names: each later contract repeats (some
/// of) the first one's fragments in another order and declares the shared variable differently.
pub fn gen_clash_spec(rng: &mut Rng) -> TextSpec {
    let fam = clash_family();
    let n_contracts = rng.range(2, 4);
    let mut first: Vec<usize> = (0..rng.range(1, 4)).map(|_| rng.below(FRAGS.len())).collect();
    first.push(*rng.pick(&fam));
    rng.shuffle(&mut first);
    let mut contracts = vec![first.clone()];
    for _ in 1..n_contracts {
        let mut c: Vec<usize> = first
            .iter()
            .copied()
            .filter(|&i| !FRAGS[i].key.starts_with("clash_") && rng.chance(3, 4))
            .collect();
        if rng.chance(1, 2) {
            c.push(rng.below(FRAGS.len()));
        }
        if rng.chance(5, 6) {
            c.push(*rng.pick(&fam));
        }
        rng.shuffle(&mut c);
        contracts.push(c);
    }
    TextSpec {
        pragma: rng.below(PRAGMAS.len()),
        contracts,
        spdx: rng.chance(1, 3),
        blank_lines: (0..n_contracts).map(|_| rng.below(3) as u8).collect(),
        clash: true,
        kinds: gen_kinds(rng, n_contracts),
        extras: gen_extras(rng),
    }
}

/// Re-spell a text without changing its tokens: between two tokens (never inside a string, a
/// comment or the pragma line) put extra blanks, a line break or a comment. `address(0)` becomes
/// `address( 0 )`, `address /* zero */ (0)`, or is wrapped over lines, as a formatter or a person
/// might leave it.
pub fn reformat(text: &str, rng: &mut Rng) -> String {
    const SEPS: &[&str] = &[" ", " ", "  ", "\t", "\n            ", " /* c */ ", " /* zero */ "];
    let density = *rng.pick(&[2u32, 4, 8]);
    let mut out = String::with_capacity(text.len() * 2);
    for line in text.split_inclusive('\n') {
        let t = line.trim_start();
        if t.starts_with("pragma") || t.starts_with("//") {
            out.push_str(line);
            continue;
        }
        let cs: Vec<char> = line.chars().collect();
        let mut i = 0;
        let is_id = |c: char| c.is_alphanumeric() || c == '_' || c == '$';
        let is_op = |c: char| "+-*/=<>!&|%^~?:".contains(c);
        while i < cs.len() {
            let c = cs[i];
            let start = i;
            if c == '"' {
                i += 1;
                while i < cs.len() && cs[i] != '"' {
                    if cs[i] == '\\' {
                        i += 1;
                    }
                    i += 1;
                }
                i += 1;
            } else if c == '/' && i + 1 < cs.len() && cs[i + 1] == '/' {
                i = cs.len();
            } else if c == '/' && i + 1 < cs.len() && cs[i + 1] == '*' {
                i += 2;
                while i + 1 < cs.len() && !(cs[i] == '*' && cs[i + 1] == '/') {
                    i += 1;
                }
                i += 2;
            } else if is_id(c) {
                while i < cs.len() && is_id(cs[i]) {
                    i += 1;
                }
            } else if is_op(c) {
                while i < cs.len() && is_op(cs[i]) && !(cs[i] == '/' && i + 1 < cs.len() && (cs[i + 1] == '/' || cs[i + 1] == '*')) {
                    i += 1;
                }
            } else {
                i += 1;
            }
            let i2 = i.min(cs.len());
            let tok: String = cs[start..i2].iter().collect();
            out.push_str(&tok);
            let is_tok = !tok.trim().is_empty();
            let rest_has_token = cs[i2..].iter().any(|c| !c.is_whitespace());
            if is_tok && rest_has_token && !tok.starts_with("//") && rng.chance(1, density) {
                out.push_str(*rng.pick(SEPS));
            }
        }
    }
    out
}

pub fn gen_spec(rng: &mut Rng) -> TextSpec {
    let n_contracts = rng.range(1, 3);
    let mut contracts = vec![];
    for _ in 0..n_contracts {
        let n = rng.range(0, 4);
        let mut v = vec![];
        for _ in 0..n {
            v.push(rng.below(FRAGS.len()));
        }
        contracts.push(v);
    }
    TextSpec {
        pragma: rng.below(PRAGMAS.len()),
        contracts,
        spdx: rng.chance(1, 3),
        blank_lines: (0..n_contracts).map(|_| rng.below(3) as u8).collect(),
        clash: false,
        kinds: gen_kinds(rng, n_contracts),
        extras: gen_extras(rng),
    }
}

/// A text in which (almost) every pattern has a finding -- used to stuff inert files, so that
/// analysing one by mistake is visible.
pub fn stuffed_text(pragma: usize) -> String {
    let mut contracts = vec![];
    let mut cur = vec![];
    for (i, fr) in FRAGS.iter().enumerate() {
        if fr.ctor && cur.iter().any(|&j: &usize| FRAGS[j].ctor) {
            contracts.push(std::mem::take(&mut cur));
        }
        cur.push(i);
        if cur.len() >= 8 {
            contracts.push(std::mem::take(&mut cur));
        }
    }
    if !cur.is_empty() {
        contracts.push(cur);
    }
    let n = contracts.len();
    render(&TextSpec {
        pragma,
        contracts,
        spdx: false,
        blank_lines: vec![1; n],
        clash: false,
        kinds: vec![],
        extras: vec![],
    })
}

/// The four canary files (DESIGN §8): together they give every default pattern a finding.
pub fn canary_texts() -> Vec<(String, String)> {
    vec![
        ("canary_076.sol".into(), stuffed_text(0)),
        ("canary_083.sol".into(), stuffed_text(1)),
        ("canary_c0816.sol".into(), stuffed_text(2)),
        ("canary_0816.sol".into(), stuffed_text(3)),
    ]
}

/// Screening cache: text hash -> ok?
pub struct Screen {
    cache: HashMap<u64, bool>,
    pub screened_out: u64,
    pub screened_in: u64,
    pats: Vec<Pat>,
}

impl Screen {
    pub fn new() -> Screen {
        let mut pats = vec![];
        for c in CATS {
            pats.extend(defaults(c));
        }
        Screen {
            cache: HashMap::new(),
            screened_out: 0,
            screened_in: 0,
            pats,
        }
    }
    pub fn ok(&mut self, text: &str) -> bool {
        let h = hash_str(7, text);
        if let Some(v) = self.cache.get(&h) {
            return *v;
        }
        let mut good = true;
        for p in &self.pats {
            if analyze_file(text, 0, *p).is_err() {
                good = false;
                break;
            }
        }
        if good {
            self.screened_in += 1;
        } else {
            self.screened_out += 1;
        }
        self.cache.insert(h, good);
        good
    }
    /// Generate a screened text (falls back to a trivially safe file after 20 rejections).
    pub fn gen_text(&mut self, rng: &mut Rng) -> String {
        for _ in 0..20 {
            let mut t = if rng.chance(1, 8) { render(&gen_clash_spec(rng)) } else { render(&gen_spec(rng)) };
            // occasionally another spelling of the same tokens
            if rng.chance(1, 6) {
                t = reformat(&t, rng);
            }
            // occasionally Windows line ends
            if rng.chance(1, 12) {
                t = t.replace('\n', "\r\n");
            }
            if self.ok(&t) {
                return t;
            }
        }
        "pragma solidity 0.8.16;\n\ncontract Empty {\n}\n".to_string()
    }
}
