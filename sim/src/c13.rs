//! C13 -- the report is a deterministic function of the set of findings: the same findings must
//! give byte-identical reports under every listing order, iteration order, configured pattern
//! order and construction history of the findings map.

use crate::c03;
use crate::corpus::Screen;
use crate::framework::{Ctx, Property, ScnResult, Tier, Violation};
use crate::gen;
use crate::pats::{sorted, Cat, Pat};
use crate::report::Tables;
use crate::rng::{hash_str, mix, Rng};
use crate::run::{run, Mode, RunSpec};
use crate::simenv::{journal_hash, Ev, Schedule};
use crate::synth::{self, Synth};
use crate::world::World;
use serde_json::{json, Value};
use std::collections::HashMap;

pub struct C13;

#[derive(Clone, Debug, PartialEq, Eq)]
pub struct E2eVariant {
    pub schedule: Schedule,
    pub vul: Vec<Pat>,
    pub opt: Vec<Pat>,
    pub qa: Vec<Pat>,
}

#[derive(Clone, Debug, PartialEq, Eq)]
pub struct E2eGroup {
    pub world: World,
    pub dir: String,
    pub variants: Vec<E2eVariant>,
}

impl E2eGroup {
    fn spec(&self, i: usize) -> RunSpec {
        let v = &self.variants[i];
        RunSpec {
            world: self.world.clone(),
            schedule: v.schedule.clone(),
            mode: Mode::Lib {
                dir: self.dir.clone(),
                vul: v.vul.clone(),
                opt: v.opt.clone(),
                qa: v.qa.clone(),
            },
            render: true,
        }
    }
    fn to_json(&self) -> Value {
        json!({
            "kind": "e2e",
            "world": self.world.to_json(),
            "dir": self.dir,
            "variants": self.variants.iter().map(|v| json!({
                "schedule": v.schedule.to_json(),
                "vulnerabilities": crate::run::pats_to_json(&v.vul),
                "optimizations": crate::run::pats_to_json(&v.opt),
                "qa": crate::run::pats_to_json(&v.qa),
            })).collect::<Vec<_>>(),
        })
    }
    fn from_json(v: &Value, doc: &HashMap<Cat, Vec<String>>) -> Result<E2eGroup, String> {
        let mut variants = vec![];
        for x in v["variants"].as_array().ok_or("variants")? {
            variants.push(E2eVariant {
                schedule: Schedule::from_json(&x["schedule"]),
                vul: crate::run::pats_from_json(&x["vulnerabilities"], doc)?,
                opt: crate::run::pats_from_json(&x["optimizations"], doc)?,
                qa: crate::run::pats_from_json(&x["qa"], doc)?,
            });
        }
        Ok(E2eGroup {
            world: World::from_json(&v["world"])?,
            dir: v["dir"].as_str().ok_or("dir")?.to_string(),
            variants,
        })
    }
}

pub const K: usize = 6;

/// Parseable texts outside the screened corpus: on the pinned tree some detectors abort on them
/// (that is another property's business). C13's oracle is purely differential, so they are welcome
/// here: whatever a run over such a tree does, it must do the same under every schedule.
pub const EXOTIC_TEXTS: &[&str] = &[
    // no version pragma, but constructs the version-gated detectors look at
    "contract NoPragma {\n    using SafeMath for uint256;\n    function f(uint256 a, uint256 b, bool c) public pure returns (uint256) {\n        require(c, \"this revert string is definitely longer than thirty two bytes\");\n        return a.add(b);\n    }\n}\n",
    // a version range
    "pragma solidity >=0.6.0 <0.9.0;\n\ncontract Range {\n    function g(bool c) public pure {\n        require(c, \"msg\");\n    }\n}\n",
    // a free function and a library
    "pragma solidity 0.8.16;\n\nfunction freeFn(uint256 a) pure returns (uint256) {\n    return a * 2;\n}\n\nlibrary L {\n    function h() internal {}\n}\n",
    // last line not terminated: findings on line 0
    "pragma solidity ^0.8.16;\ncontract Tail { function t(address a) public pure returns (bool) { return a == address(0); } }",
    // only an interface
    "pragma solidity 0.7.6;\n\ninterface I {\n    function x() external;\n}\n",
];

fn gen_e2e(rng: &mut Rng, screen: &mut Screen) -> E2eGroup {
    let (mut base, _, _) = c03::gen_spec(rng, screen);
    if rng.chance(1, 5) {
        let root = match &base.mode {
            Mode::Lib { dir, .. } => base.world.resolve(std::path::Path::new(dir)),
            _ => "/w/c".to_string(),
        };
        let mut dirs: Vec<String> = base
            .world
            .dirs()
            .into_iter()
            .filter(|d| *d == root || d.starts_with(&format!("{}/", root)))
            .collect();
        if dirs.is_empty() {
            dirs.push(root.clone());
        }
        for k in 0..rng.range(1, 2) {
            let d = rng.pick(&dirs).clone();
            let p = crate::world::join(&d, &format!("exotic{}.sol", k));
            base.world.put_file(&p, rng.pick(EXOTIC_TEXTS).as_bytes().to_vec(), crate::world::Fault::None);
        }
    }
    let (dir, vul, opt, qa) = match &base.mode {
        Mode::Lib { dir, vul, opt, qa } => (dir.clone(), vul.clone(), opt.clone(), qa.clone()),
        _ => unreachable!(),
    };
    let mut variants = vec![E2eVariant {
        schedule: base.schedule.clone(),
        vul: vul.clone(),
        opt: opt.clone(),
        qa: qa.clone(),
    }];
    for _ in 1..K {
        let (schedule, _, _) = gen::gen_schedule(rng, &base.world);
        let mut v = vul.clone();
        let mut o = opt.clone();
        let mut q = qa.clone();
        if rng.chance(2, 3) {
            rng.shuffle(&mut v);
            rng.shuffle(&mut o);
            rng.shuffle(&mut q);
        }
        variants.push(E2eVariant {
            schedule,
            vul: v,
            opt: o,
            qa: q,
        });
    }
    E2eGroup {
        world: base.world,
        dir,
        variants,
    }
}

struct GroupJudged {
    violation: Option<(String, String)>,
    runs: u64,
    steps: u64,
    sections: usize,
    distinct_decisions: Vec<u64>,
    findings_differ: bool,
    aborted: bool,
    trace: u64,
    findings_hash: u64,
    sample: Option<Value>,
}

fn first_diff(a: &[u8], b: &[u8]) -> usize {
    a.iter()
        .zip(b.iter())
        .position(|(x, y)| x != y)
        .unwrap_or(a.len().min(b.len()))
}

fn excerpt(b: &[u8], at: usize) -> String {
    let lo = at.saturating_sub(30);
    let hi = (at + 50).min(b.len());
    String::from_utf8_lossy(&b[lo..hi]).replace('\n', "\\n")
}

fn judge_e2e(g: &E2eGroup) -> GroupJudged {
    let mut j = GroupJudged {
        violation: None,
        runs: 0,
        steps: 0,
        sections: 0,
        distinct_decisions: vec![],
        findings_differ: false,
        aborted: false,
        trace: 0,
        findings_hash: 0,
        sample: None,
    };
    let mut first: Option<(Vec<u8>, crate::pats::Flat)> = None;
    let mut first_aborted = false;
    for i in 0..g.variants.len() {
        let spec = g.spec(i);
        let out = run(&spec);
        j.runs += 1;
        j.steps += out.journal.len() as u64 + 4;
        j.trace = mix(j.trace ^ journal_hash(&out.journal));
        j.distinct_decisions.push(c03::decision_hash(&out));
        if out.abort.is_some() {
            if i > 0 && !j.aborted && first.is_some() {
                j.violation = Some((
                    "run_outcome_differs_between_schedules".into(),
                    format!(
                        "same tree, same selected patterns: the run under schedule #0 completes, the run under schedule #{} fails ({:?})",
                        i, out.abort
                    ),
                ));
                return j;
            }
            j.aborted = true;
            if i == 0 {
                first_aborted = true;
                continue;
            }
            continue;
        }
        if first_aborted {
            j.violation = Some((
                "run_outcome_differs_between_schedules".into(),
                format!(
                    "same tree, same selected patterns: the run under schedule #0 fails, the run under schedule #{} completes",
                    i
                ),
            ));
            return j;
        }
        let findings = sorted(out.maps.flat());
        let report = match out.report_bytes(&spec.world) {
            Some(b) => b,
            None => {
                j.aborted = true;
                return j;
            }
        };
        j.trace = mix(j.trace ^ hash_str(41, &String::from_utf8_lossy(&report)));
        if i == 0 {
            let pats: std::collections::BTreeSet<&String> = findings.iter().map(|e| &e.pat).collect();
            j.sections = pats.len();
            j.findings_hash = hash_str(42, &format!("{:?}", findings));
            j.sample = Some(spec.sample(&out));
            first = Some((report, findings));
        } else {
            let (r0, f0) = first.as_ref().unwrap();
            if *f0 != findings {
                j.findings_differ = true;
            }
            if *r0 != report && j.violation.is_none() {
                let at = first_diff(r0, &report);
                j.violation = Some((
                    if *f0 != findings {
                        "report_differs_between_schedules_findings_too".into()
                    } else {
                        "report_differs_between_schedules".into()
                    },
                    format!(
                        "same tree, same selected patterns{} ({} entries), but the report under schedule #{} differs from schedule #0 at byte {}: ...{}... vs ...{}...",
                        if *f0 != findings { ", and already the walkers return different findings" } else { ", same findings" },
                        findings.len(),
                        i,
                        at,
                        excerpt(r0, at),
                        excerpt(&report, at)
                    ),
                ));
            }
        }
    }
    j
}

fn gen_synth_group(rng: &mut Rng, t: &Tables) -> Vec<Synth> {
    let entries = synth::gen_entries(rng, t);
    let mut out = vec![];
    for i in 0..K {
        let mut e = entries.clone();
        if i > 0 {
            rng.shuffle(&mut e);
        }
        let im = rng.below(4);
        out.push(Synth {
            entries: e,
            iteration: gen::gen_iteration(rng, im),
        });
    }
    out
}

fn judge_synth(vs: &[Synth]) -> GroupJudged {
    let mut j = GroupJudged {
        violation: None,
        runs: 0,
        steps: 0,
        sections: 0,
        distinct_decisions: vec![],
        findings_differ: false,
        aborted: false,
        trace: 0,
        findings_hash: 0,
        sample: None,
    };
    let mut first: Option<Vec<u8>> = None;
    for (i, s) in vs.iter().enumerate() {
        let r = synth::render(s);
        j.runs += 1;
        j.steps += r.journal.len() as u64 + 1;
        j.trace = mix(j.trace ^ journal_hash(&r.journal));
        let mut dh = 5u64;
        for e in &r.journal {
            if let Ev::IterOrder { .. } = e {
                dh = mix(dh ^ hash_str(2, &e.render()));
            }
        }
        // the construction order of the map is a decision too
        dh = mix(dh ^ hash_str(43, &format!("{:?}", s.entries)));
        j.distinct_decisions.push(dh);
        let report = match (r.abort, r.report) {
            (None, Some(b)) => b,
            _ => {
                j.aborted = true;
                return j;
            }
        };
        j.trace = mix(j.trace ^ hash_str(41, &String::from_utf8_lossy(&report)));
        if i == 0 {
            let f = synth::flat_of(&s.entries);
            let pats: std::collections::BTreeSet<&String> = f.iter().map(|e| &e.pat).collect();
            j.sections = pats.len();
            j.findings_hash = hash_str(42, &format!("{:?}", f));
            j.sample = Some(json!({
                "kind": "synthetic",
                "entries_in_discovery_order": s.entries.iter().take(6).map(|(p, f, l)| format!("({}, {}, {:?})", p.label(), f, l)).collect::<Vec<_>>(),
                "variants": vs.len(),
            }));
            first = Some(report);
        } else if first.as_ref() != Some(&report) && j.violation.is_none() {
            let r0 = first.as_ref().unwrap();
            let at = first_diff(r0, &report);
            j.violation = Some((
                "report_differs_for_same_findings".into(),
                format!(
                    "the same set of {} findings, built in a different order and iterated in a different order (variant #{}), renders differently at byte {}: ...{}... vs ...{}...",
                    s.entries.len(),
                    i,
                    at,
                    excerpt(r0, at),
                    excerpt(&report, at)
                ),
            ));
        }
    }
    j
}

/// Configuration groups: the same tree analysed through the real option parser with the same
/// multiset of configured pattern names in different orders (a name may be listed twice).
#[derive(Clone, Debug, PartialEq, Eq)]
pub struct ConfigGroup {
    pub world: World,
    /// (optimizations, vulnerabilities, qa) name lists per variant
    pub variants: Vec<(Vec<String>, Vec<String>, Vec<String>, Schedule)>,
}

impl ConfigGroup {
    fn to_json(&self) -> Value {
        json!({
            "kind": "config",
            "world": self.world.to_json(),
            "variants": self.variants.iter().map(|(o, v, q, s)| json!({
                "optimizations": o, "vulnerabilities": v, "qa": q, "schedule": s.to_json(),
            })).collect::<Vec<_>>(),
        })
    }
    fn from_json(v: &Value) -> Result<ConfigGroup, String> {
        let strs = |x: &Value| -> Vec<String> {
            x.as_array()
                .map(|a| a.iter().map(|y| y.as_str().unwrap_or("").to_string()).collect())
                .unwrap_or_default()
        };
        let mut variants = vec![];
        for x in v["variants"].as_array().ok_or("variants")? {
            variants.push((
                strs(&x["optimizations"]),
                strs(&x["vulnerabilities"]),
                strs(&x["qa"]),
                Schedule::from_json(&x["schedule"]),
            ));
        }
        Ok(ConfigGroup {
            world: World::from_json(&v["world"])?,
            variants,
        })
    }
}

fn gen_config(ctx: &Ctx, rng: &mut Rng, screen: &mut Screen) -> ConfigGroup {
    let (base, _, _) = c03::gen_spec_at(rng, screen, false);
    let mut world = base.world.clone();
    world.cwd = "/w".to_string();
    let mut lists: Vec<Vec<String>> = vec![];
    for cat in [Cat::Opt, Cat::Vul, Cat::Qa] {
        let names = crate::c18::usable_names(ctx, cat);
        let mut v = match rng.below(3) {
            0 => names.clone(),
            1 => rng.subset(&names, 1, 2),
            _ => rng.subset(&names, 1, 4),
        };
        // a name may be configured twice (possibly in another letter case)
        if !v.is_empty() && rng.chance(1, 2) {
            let dup = rng.pick(&v).clone();
            let dup = if rng.chance(1, 2) { dup.to_uppercase() } else { dup };
            let pos = rng.below(v.len() + 1);
            v.insert(pos, dup);
        }
        lists.push(v);
    }
    let mut variants = vec![];
    for i in 0..K {
        let mut l = lists.clone();
        if i > 0 {
            for x in l.iter_mut() {
                rng.shuffle(x);
            }
        }
        let (schedule, _, _) = gen::gen_schedule(rng, &world);
        variants.push((l[0].clone(), l[1].clone(), l[2].clone(), schedule));
    }
    ConfigGroup { world, variants }
}

fn judge_config(g: &ConfigGroup) -> GroupJudged {
    let mut j = GroupJudged {
        violation: None,
        runs: 0,
        steps: 0,
        sections: 0,
        distinct_decisions: vec![],
        findings_differ: false,
        aborted: false,
        trace: 0,
        findings_hash: 0,
        sample: None,
    };
    let mut first: Option<Vec<u8>> = None;
    for (i, (o, v, q, schedule)) in g.variants.iter().enumerate() {
        let mut world = g.world.clone();
        world.put_file(
            "/w/cfg.toml",
            crate::c18::toml_text("/w/c", o, v, q).into_bytes(),
            crate::world::Fault::None,
        );
        let spec = RunSpec {
            world,
            schedule: schedule.clone(),
            mode: Mode::Proc {
                argv: vec!["solstat".into(), "--toml".into(), "/w/cfg.toml".into()],
            },
            render: true,
        };
        let out = run(&spec);
        j.runs += 1;
        j.steps += out.journal.len() as u64 + 5;
        j.trace = mix(j.trace ^ journal_hash(&out.journal));
        j.distinct_decisions.push(mix(c03::decision_hash(&out) ^ hash_str(44, &format!("{:?}{:?}{:?}", o, v, q))));
        if out.abort.is_some() {
            j.aborted = true;
            return j;
        }
        let report = out.report_bytes(&spec.world).unwrap_or_default();
        j.trace = mix(j.trace ^ hash_str(41, &String::from_utf8_lossy(&report)));
        if i == 0 {
            let f = sorted(out.maps.flat());
            let pats: std::collections::BTreeSet<&String> = f.iter().map(|e| &e.pat).collect();
            j.sections = pats.len();
            j.findings_hash = hash_str(42, &format!("{:?}", f));
            j.sample = Some(json!({"kind": "config", "optimizations": o, "vulnerabilities": v, "qa": q, "variants": g.variants.len(), "run": spec.sample(&out)}));
            first = Some(report);
        } else if first.as_ref() != Some(&report) && j.violation.is_none() {
            let r0 = first.as_ref().unwrap();
            let at = first_diff(r0, &report);
            j.violation = Some((
                "report_depends_on_configured_order".into(),
                format!(
                    "same tree, same configured names in another order (variant #{}: optimizations {:?}, vulnerabilities {:?}, qa {:?}): the report differs at byte {} ({} vs {} bytes): ...{}... vs ...{}...",
                    i, o, v, q, at, r0.len(), report.len(), excerpt(r0, at), excerpt(&report, at)
                ),
            ));
        }
    }
    j
}

fn synth_group_json(vs: &[Synth]) -> Value {
    json!({"kind": "synthetic", "variants": vs.iter().map(|s| s.to_json()).collect::<Vec<_>>()})
}

fn synth_group_from(v: &Value, doc: &HashMap<Cat, Vec<String>>) -> Result<Vec<Synth>, String> {
    v["variants"]
        .as_array()
        .ok_or("variants")?
        .iter()
        .map(|x| Synth::from_json(x, doc))
        .collect()
}

impl Property for C13 {
    fn id(&self) -> &'static str {
        "C13"
    }
    fn budget(&self, tier: Tier) -> u64 {
        match tier {
            Tier::Quick => 4_000,
            Tier::Thorough => 150_000,
        }
    }
    fn scenario(&self, ctx: &Ctx, _index: u64, rng: &mut Rng, screen: &mut Screen) -> ScnResult {
        let mut r = ScnResult::default();
        let kind = rng.below(5);
        let (j, replay) = if kind == 0 {
            let g = gen_config(ctx, rng, screen);
            r.count("configuration_order_groups", 1);
            let j = judge_config(&g);
            (j, g.to_json())
        } else if kind <= 2 {
            let g = gen_e2e(rng, screen);
            r.count("end_to_end_groups", 1);
            let j = judge_e2e(&g);
            (j, g.to_json())
        } else {
            let t = Tables::build();
            let vs = gen_synth_group(rng, &t);
            r.count("synthetic_groups", 1);
            let j = judge_synth(&vs);
            (j, synth_group_json(&vs))
        };
        r.evaluations = j.runs;
        r.steps = j.steps;
        r.fault("schedule_variants", j.runs);
        let mut d = j.distinct_decisions.clone();
        d.sort();
        d.dedup();
        r.probe("sections_ge_2_and_orders_ge_2", j.sections >= 2 && d.len() >= 2);
        if j.sections >= 2 && d.len() >= 2 && !j.aborted {
            r.nontrivial.push(mix(j.findings_hash ^ d.iter().fold(0, |a, b| mix(a ^ b))));
        }
        r.interleavings.extend(d);
        r.states.push(j.findings_hash);
        if j.findings_differ {
            r.count("groups_where_findings_differ", 1);
        }
        if j.aborted {
            r.count("groups_skipped_run_aborted", 1);
        }
        r.mixin(j.trace);
        if j.sections >= 2 && rng.chance(1, 8) {
            r.sample = j.sample;
        }
        if let Some((clause, detail)) = j.violation {
            r.violations.push(Violation {
                clause,
                detail,
                replay,
            });
        }
        r
    }
    fn replay(&self, ctx: &Ctx, scn: &Value) -> Result<Option<Violation>, String> {
        let j = match scn["kind"].as_str() {
            Some("e2e") => judge_e2e(&E2eGroup::from_json(scn, &ctx.doc.names)?),
            Some("synthetic") => judge_synth(&synth_group_from(scn, &ctx.doc.names)?),
            Some("config") => judge_config(&ConfigGroup::from_json(scn)?),
            _ => return Err("scenario.kind".into()),
        };
        Ok(j.violation.map(|(clause, detail)| Violation {
            clause,
            detail,
            replay: scn.clone(),
        }))
    }
    fn shrink(&self, ctx: &Ctx, scn: &Value) -> Vec<Value> {
        let mut out = vec![];
        match scn["kind"].as_str() {
            Some("e2e") => {
                let g = match E2eGroup::from_json(scn, &ctx.doc.names) {
                    Ok(g) => g,
                    Err(_) => return out,
                };
                // pairs first
                if g.variants.len() > 2 {
                    for i in 1..g.variants.len() {
                        let mut h = g.clone();
                        h.variants = vec![g.variants[0].clone(), g.variants[i].clone()];
                        out.push(h.to_json());
                    }
                }
                let prot = vec![g.world.cwd.clone(), g.world.resolve(std::path::Path::new(&g.dir))];
                for w in crate::shrink::shrink_world(&g.world, &prot) {
                    let mut h = g.clone();
                    h.world = w;
                    out.push(h.to_json());
                }
                // drop one pattern everywhere
                let all: Vec<Pat> = g.variants[0]
                    .vul
                    .iter()
                    .chain(g.variants[0].opt.iter())
                    .chain(g.variants[0].qa.iter())
                    .copied()
                    .collect();
                if all.len() > 4 {
                    for half in 0..2 {
                        let keep: Vec<Pat> = if half == 0 {
                            all[..all.len() / 2].to_vec()
                        } else {
                            all[all.len() / 2..].to_vec()
                        };
                        let mut h = g.clone();
                        for v in h.variants.iter_mut() {
                            v.vul.retain(|x| keep.contains(x));
                            v.opt.retain(|x| keep.contains(x));
                            v.qa.retain(|x| keep.contains(x));
                        }
                        out.push(h.to_json());
                    }
                }
                for p in &all {
                    let mut h = g.clone();
                    for v in h.variants.iter_mut() {
                        v.vul.retain(|x| x != p);
                        v.opt.retain(|x| x != p);
                        v.qa.retain(|x| x != p);
                    }
                    out.push(h.to_json());
                }
                // make a variant's schedule / pattern order equal to variant 0's
                for i in 1..g.variants.len() {
                    if g.variants[i].schedule.listing != g.variants[0].schedule.listing {
                        let mut h = g.clone();
                        h.variants[i].schedule.listing = g.variants[0].schedule.listing.clone();
                        out.push(h.to_json());
                    }
                    if g.variants[i].schedule.iteration != g.variants[0].schedule.iteration {
                        let mut h = g.clone();
                        h.variants[i].schedule.iteration = g.variants[0].schedule.iteration.clone();
                        out.push(h.to_json());
                    }
                    if g.variants[i].opt != g.variants[0].opt
                        || g.variants[i].vul != g.variants[0].vul
                        || g.variants[i].qa != g.variants[0].qa
                    {
                        let mut h = g.clone();
                        h.variants[i].opt = g.variants[0].opt.clone();
                        h.variants[i].vul = g.variants[0].vul.clone();
                        h.variants[i].qa = g.variants[0].qa.clone();
                        out.push(h.to_json());
                    }
                }
                for w in crate::shrink::shrink_contents(&g.world) {
                    let mut h = g.clone();
                    h.world = w;
                    out.push(h.to_json());
                }
            }
            Some("config") => {
                let g = match ConfigGroup::from_json(scn) {
                    Ok(g) => g,
                    Err(_) => return out,
                };
                if g.variants.len() > 2 {
                    for i in 1..g.variants.len() {
                        let mut h = g.clone();
                        h.variants = vec![g.variants[0].clone(), g.variants[i].clone()];
                        out.push(h.to_json());
                    }
                }
                let prot = vec!["/w".to_string(), "/w/c".to_string()];
                for w in crate::shrink::shrink_world(&g.world, &prot) {
                    let mut h = g.clone();
                    h.world = w;
                    out.push(h.to_json());
                }
                // drop one configured name (one occurrence) from every variant
                for which in 0..3 {
                    let base: Vec<String> = match which {
                        0 => g.variants[0].0.clone(),
                        1 => g.variants[0].1.clone(),
                        _ => g.variants[0].2.clone(),
                    };
                    for n in &base {
                        let mut h = g.clone();
                        for v in h.variants.iter_mut() {
                            let l = match which {
                                0 => &mut v.0,
                                1 => &mut v.1,
                                _ => &mut v.2,
                            };
                            if let Some(p) = l.iter().position(|x| x == n) {
                                l.remove(p);
                            }
                        }
                        out.push(h.to_json());
                    }
                }
                for w in crate::shrink::shrink_contents(&g.world) {
                    let mut h = g.clone();
                    h.world = w;
                    out.push(h.to_json());
                }
            }
            Some("synthetic") => {
                let vs = match synth_group_from(scn, &ctx.doc.names) {
                    Ok(v) => v,
                    Err(_) => return out,
                };
                if vs.len() > 2 {
                    for i in 1..vs.len() {
                        out.push(synth_group_json(&[vs[0].clone(), vs[i].clone()]));
                    }
                }
                // remove one entry (by value) from every variant
                let base = vs[0].entries.clone();
                for e in &base {
                    let mut ws = vs.clone();
                    for w in ws.iter_mut() {
                        if let Some(pos) = w.entries.iter().position(|x| x == e) {
                            w.entries.remove(pos);
                        }
                    }
                    out.push(synth_group_json(&ws));
                }
                // shorten line sets / simplify names everywhere
                for e in &base {
                    if e.2.len() > 1 || e.1 != "a.sol" {
                        let mut ws = vs.clone();
                        for w in ws.iter_mut() {
                            if let Some(pos) = w.entries.iter().position(|x| x == e) {
                                w.entries[pos].2.truncate(1);
                            }
                        }
                        out.push(synth_group_json(&ws));
                    }
                }
                for i in 1..vs.len() {
                    if vs[i].iteration != vs[0].iteration {
                        let mut ws = vs.clone();
                        ws[i].iteration = vs[0].iteration.clone();
                        out.push(synth_group_json(&ws));
                    }
                    if vs[i].entries != vs[0].entries {
                        let mut ws = vs.clone();
                        ws[i].entries = vs[0].entries.clone();
                        out.push(synth_group_json(&ws));
                    }
                }
            }
            _ => {}
        }
        out
    }
    fn required_probes(&self) -> Vec<&'static str> {
        vec!["sections_ge_2_and_orders_ge_2"]
    }
    fn rule(&self) -> String {
        format!("Each scenario is a group of {} executions that must produce byte-identical reports: (a) end-to-end -- one generated tree and pattern set run under {} schedules that differ in listing permutation (7 modes), iteration permutation (4 modes) and configured pattern order; (c) configuration order -- the same tree run through the real option parser with the same configured names (a name may be listed twice, in any letter case) in permuted order; (b) render level -- one findings set materialised as {} maps built in different entry orders and iterated in different orders, each through the real generate_report. Groups in which a run aborts are skipped and counted. If the walkers return different findings under two schedules the reports differ too and that is reported here as well (two runs over the same directory content must give the same bytes, whatever the cause). Non-trivial = the findings span >=2 report sections and the group contains >=2 distinct decision traces; distinct = distinct hash of (findings, set of decision traces). evaluations counts single executions.", K, K, K)
    }
    fn assumptions(&self) -> Vec<String> {
        vec![
            "SeamMap explores every permutation the HashMap contract allows; which of them std's SipHash can realise is irrelevant to a renderer that must not depend on the order (the simmiri tier runs the real std HashMap with seeded RandomState)".into(),
            "hash containers local to detectors (N7) are not under the seed natively; audited order-insensitive, watched by the determinism self-test".into(),
        ]
    }
    fn components(&self) -> Value {
        json!({
            "real": ["generate_report and the three renderers", "analyze_dir + detectors (end-to-end groups)"],
            "stubbed": ["HashMap iteration order -> seeded permutation", "read_dir order -> seeded permutation", "fs::write -> in-memory file"],
        })
    }
}
