//! Shrink candidates for a `RunSpec` (used by every property's minimiser).

use crate::corpus::{render, TextSpec, FRAGS};
use crate::run::{Mode, RunSpec};
use crate::simenv::OrderPolicy;
use crate::world::{Fault, Node, World};

pub fn protected_paths(spec: &RunSpec) -> Vec<String> {
    let mut v = vec![spec.world.cwd.clone()];
    if let Mode::Lib { dir, .. } = &spec.mode {
        v.push(spec.world.resolve(std::path::Path::new(dir)));
    }
    if let Mode::Proc { argv } = &spec.mode {
        for a in argv.iter().skip(1) {
            if !a.starts_with('-') {
                v.push(spec.world.resolve(std::path::Path::new(a)));
            }
        }
        v.push(spec.world.resolve(std::path::Path::new("./contracts")));
    }
    v
}

fn is_protected(p: &str, prot: &[String]) -> bool {
    prot.iter()
        .any(|q| q == p || q.starts_with(&format!("{}/", p)))
}

pub fn simple_texts() -> Vec<String> {
    let mut v = vec!["pragma solidity 0.8.16;\n\ncontract E {\n}\n".to_string()];
    for i in 0..FRAGS.len() {
        v.push(render(&TextSpec {
            pragma: 3,
            contracts: vec![vec![i]],
            spdx: false,
            blank_lines: vec![1],
            clash: false,
                kinds: vec![],
                extras: vec![],
        }));
    }
    v
}

pub fn shrink_world(world: &World, prot: &[String]) -> Vec<World> {
    let mut out = vec![];
    // many files: first try to drop half of them at once
    let files: Vec<String> = world
        .files()
        .into_iter()
        .filter(|f| !is_protected(f, prot))
        .collect();
    if files.len() > 8 {
        for half in 0..2 {
            let mut w = world.clone();
            let (a, b) = files.split_at(files.len() / 2);
            for f in if half == 0 { a } else { b } {
                w.nodes.remove(f);
            }
            out.push(w);
        }
    }
    // remove directories (deepest first gives small steps; shallow first gives big steps -- try big first)
    for d in world.dirs() {
        if is_protected(&d, prot) {
            continue;
        }
        let mut w = world.clone();
        w.remove_tree(&d);
        out.push(w);
    }
    for f in world.files() {
        if is_protected(&f, prot) {
            continue;
        }
        let mut w = world.clone();
        w.nodes.remove(&f);
        out.push(w);
    }
    // drop faults
    for f in world.files() {
        if let Some(Node::File { bytes, fault }) = world.nodes.get(&f) {
            if *fault != Fault::None {
                let mut w = world.clone();
                w.nodes.insert(
                    f.clone(),
                    Node::File {
                        bytes: bytes.clone(),
                        fault: Fault::None,
                    },
                );
                out.push(w);
            }
        }
    }
    out
}

pub fn shrink_contents(world: &World) -> Vec<World> {
    let mut out = vec![];
    let simple = simple_texts();
    for f in world.files() {
        if let Some(Node::File { bytes, fault }) = world.nodes.get(&f) {
            for t in &simple {
                if t.len() < bytes.len() {
                    let mut w = world.clone();
                    w.nodes.insert(
                        f.clone(),
                        Node::File {
                            bytes: t.clone().into_bytes(),
                            fault: *fault,
                        },
                    );
                    out.push(w);
                }
            }
        }
    }
    out
}

pub fn shrink_policy(p: &OrderPolicy, names_sorted: &[String]) -> Vec<OrderPolicy> {
    let mut out = vec![];
    if !p.salts.is_empty() {
        let mut q = p.clone();
        q.salts.clear();
        out.push(q);
    }
    // identity order
    let mut ident = OrderPolicy::default();
    for (i, n) in names_sorted.iter().enumerate() {
        ident.ranks.insert(n.clone(), i as u64);
    }
    if ident.ranks != p.ranks {
        let mut q = ident.clone();
        q.salts = p.salts.clone();
        out.push(q);
        // reversed
        let mut r = OrderPolicy::default();
        let n = names_sorted.len() as u64;
        for (i, nm) in names_sorted.iter().enumerate() {
            r.ranks.insert(nm.clone(), n - i as u64);
        }
        r.salts = p.salts.clone();
        if r.ranks != p.ranks {
            out.push(r);
        }
    }
    // drop ranks of names that no longer exist
    let live: Vec<&String> = p.ranks.keys().filter(|k| names_sorted.contains(k)).collect();
    if live.len() < p.ranks.len() {
        let mut q = p.clone();
        q.ranks.retain(|k, _| names_sorted.contains(k));
        out.push(q);
    }
    out
}

pub fn shrink_runspec(spec: &RunSpec) -> Vec<RunSpec> {
    let prot = protected_paths(spec);
    let mut out = vec![];
    for w in shrink_world(&spec.world, &prot) {
        let mut s = spec.clone();
        s.world = w;
        out.push(s);
    }
    if let Mode::Lib { dir, vul, opt, qa } = &spec.mode {
        for (which, list) in [(0, vul), (1, opt), (2, qa)] {
            if list.len() > 4 {
                // halves first
                for half in 0..2 {
                    let mut l = list.clone();
                    let mid = l.len() / 2;
                    if half == 0 {
                        l.truncate(mid);
                    } else {
                        l.drain(..mid);
                    }
                    let mut s = spec.clone();
                    s.mode = with_list(dir, vul, opt, qa, which, l);
                    out.push(s);
                }
            }
            for i in 0..list.len() {
                let mut l = list.clone();
                l.remove(i);
                let mut s = spec.clone();
                s.mode = with_list(dir, vul, opt, qa, which, l);
                out.push(s);
            }
        }
    }
    let names: Vec<String> = spec.world.nodes.keys().cloned().collect();
    for p in shrink_policy(&spec.schedule.listing, &names) {
        let mut s = spec.clone();
        s.schedule.listing = p;
        out.push(s);
    }
    let keys = crate::gen::all_pattern_keys();
    for p in shrink_policy(&spec.schedule.iteration, &keys) {
        let mut s = spec.clone();
        s.schedule.iteration = p;
        out.push(s);
    }
    for w in shrink_contents(&spec.world) {
        let mut s = spec.clone();
        s.world = w;
        out.push(s);
    }
    out
}

fn with_list(
    dir: &str,
    vul: &Vec<crate::pats::Pat>,
    opt: &Vec<crate::pats::Pat>,
    qa: &Vec<crate::pats::Pat>,
    which: usize,
    l: Vec<crate::pats::Pat>,
) -> Mode {
    Mode::Lib {
        dir: dir.to_string(),
        vul: if which == 0 { l.clone() } else { vul.clone() },
        opt: if which == 1 { l.clone() } else { opt.clone() },
        qa: if which == 2 { l } else { qa.clone() },
    }
}
