//! C15 -- each (file, pattern) verdict is independent of everything else in the run.
//!
//! Baseline: every (pool text, pattern) verdict computed by ONE call in a FRESH child process.
//! Histories: chains of scenarios executed in one child process without any reset in between;
//! a scenario is 2-4 tasks running on real OS threads that pass a baton (exactly one runs at a
//! time, the schedule says who performs the next operation); operations are direct per-file calls
//! with arbitrary file numbers and directory walks over worlds that embed pool files among
//! varying siblings, positions, pattern sets and orders. Every observation must equal the
//! baseline.

use crate::corpus::Screen;
use crate::framework::{Ctx, Property, ScnResult, Tier, Violation};
use crate::gen;
use crate::pats::{analyze_dir_cat, analyze_file, defaults, from_label, Cat, Maps, Pat, CATS};
use crate::rng::{hash_str, mix, stream_seed, Rng};
use crate::simenv::{with_env, OrderPolicy, Schedule, SimEnv};
use crate::world::{base_name, Fault, World};
use serde_json::{json, Value};
use std::collections::{BTreeMap, HashMap};
use std::sync::{Arc, Condvar, Mutex};

pub struct C15;

pub const SCN_PER_CHAIN: u64 = 10;

// ------------------------------------------------------------------------------------------------
// data

#[derive(Clone, Debug, PartialEq)]
pub enum Op {
    File {
        text: String, // pool name
        file_no: usize,
        pat: String, // label
    },
    Dir {
        cat: String,
        pats: Vec<String>,
        /// (absolute path in the op's private world, pool name)
        tree: Vec<(String, String)>,
        listing: OrderPolicy,
    },
}

#[derive(Clone, Debug, PartialEq)]
pub struct Scn {
    pub tasks: Vec<Vec<Op>>,
    /// which task performs the next operation (call-granular baton)
    pub order: Vec<usize>,
    /// fine-grained mode: threads are interleaved at the yield points *inside* library calls; the
    /// scheduler switches to a seeded other live thread with probability num/den at each point
    pub fine: Option<(u64, u32, u32)>,
}

#[derive(Clone, Debug, PartialEq)]
pub struct Chain {
    pub pool: BTreeMap<String, String>,
    pub scenarios: Vec<Scn>,
}

fn op_to_json(o: &Op) -> Value {
    match o {
        Op::File { text, file_no, pat } => {
            json!({"kind": "file", "text": text, "file_no": file_no, "pat": pat})
        }
        Op::Dir {
            cat,
            pats,
            tree,
            listing,
        } => json!({"kind": "dir", "cat": cat, "pats": pats,
            "tree": tree.iter().map(|(p, t)| json!([p, t])).collect::<Vec<_>>(),
            "listing": listing.to_json()}),
    }
}

fn op_from_json(v: &Value) -> Result<Op, String> {
    match v["kind"].as_str() {
        Some("file") => Ok(Op::File {
            text: v["text"].as_str().ok_or("text")?.to_string(),
            file_no: v["file_no"].as_u64().unwrap_or(0) as usize,
            pat: v["pat"].as_str().ok_or("pat")?.to_string(),
        }),
        Some("dir") => Ok(Op::Dir {
            cat: v["cat"].as_str().ok_or("cat")?.to_string(),
            pats: v["pats"]
                .as_array()
                .ok_or("pats")?
                .iter()
                .map(|x| x.as_str().unwrap_or("").to_string())
                .collect(),
            tree: v["tree"]
                .as_array()
                .ok_or("tree")?
                .iter()
                .map(|x| {
                    (
                        x[0].as_str().unwrap_or("").to_string(),
                        x[1].as_str().unwrap_or("").to_string(),
                    )
                })
                .collect(),
            listing: OrderPolicy::from_json(&v["listing"]),
        }),
        _ => Err("op.kind".into()),
    }
}

impl Chain {
    pub fn to_json(&self) -> Value {
        json!({
            "pool": self.pool,
            "scenarios": self.scenarios.iter().map(|s| json!({
                "tasks": s.tasks.iter().map(|t| t.iter().map(op_to_json).collect::<Vec<_>>()).collect::<Vec<_>>(),
                "order": s.order,
                "fine": s.fine.map(|(seed, n, d)| json!({"seed": seed, "num": n, "den": d})),
            })).collect::<Vec<_>>(),
        })
    }
    pub fn from_json(v: &Value) -> Result<Chain, String> {
        let mut pool = BTreeMap::new();
        for (k, t) in v["pool"].as_object().ok_or("pool")? {
            pool.insert(k.clone(), t.as_str().unwrap_or("").to_string());
        }
        let mut scenarios = vec![];
        for s in v["scenarios"].as_array().ok_or("scenarios")? {
            let mut tasks = vec![];
            for t in s["tasks"].as_array().ok_or("tasks")? {
                let mut ops = vec![];
                for o in t.as_array().ok_or("ops")? {
                    ops.push(op_from_json(o)?);
                }
                tasks.push(ops);
            }
            scenarios.push(Scn {
                tasks,
                order: s["order"]
                    .as_array()
                    .ok_or("order")?
                    .iter()
                    .map(|x| x.as_u64().unwrap_or(0) as usize)
                    .collect(),
                fine: if s["fine"].is_object() {
                    Some((
                        s["fine"]["seed"].as_u64().unwrap_or(0),
                        s["fine"]["num"].as_u64().unwrap_or(1) as u32,
                        s["fine"]["den"].as_u64().unwrap_or(4) as u32,
                    ))
                } else {
                    None
                },
            });
        }
        Ok(Chain { pool, scenarios })
    }
    /// drop pool texts nobody uses
    pub fn prune(&mut self) {
        let mut used = std::collections::BTreeSet::new();
        for s in &self.scenarios {
            for t in &s.tasks {
                for o in t {
                    match o {
                        Op::File { text, .. } => {
                            used.insert(text.clone());
                        }
                        Op::Dir { tree, .. } => {
                            for (_, n) in tree {
                                used.insert(n.clone());
                            }
                        }
                    }
                }
            }
        }
        self.pool.retain(|k, _| used.contains(k));
    }
}

// ------------------------------------------------------------------------------------------------
// baseline: one call per fresh process

/// `sim solo <file> <label>`: prints the verdict of one call in this fresh process.
pub fn solo_main(ctx: &Ctx, file: &str, label: &str) -> i32 {
    let text = match std::fs::read_to_string(file) {
        Ok(t) => t,
        Err(_) => return 2,
    };
    let pat = match from_label(label, &ctx.doc.names) {
        Some(p) => p,
        None => return 2,
    };
    // same stack budget as the task threads of the histories
    let res = std::thread::Builder::new()
        .stack_size(64 << 20)
        .spawn(move || analyze_file(&text, 0, pat))
        .ok()
        .and_then(|h| h.join().ok());
    match res {
        Some(Ok(l)) => {
            say!("{}", json!(l.into_iter().collect::<Vec<i32>>()));
            0
        }
        _ => {
            say!("\"PANIC\"");
            0
        }
    }
}

fn solo(dir: &str, name: &str, label: &str) -> Option<Vec<i32>> {
    let exe = std::env::current_exe().ok()?;
    let out = std::process::Command::new(exe)
        .arg("solo")
        .arg(format!("{}/{}", dir, name))
        .arg(label)
        .output()
        .ok()?;
    if !out.status.success() {
        return None;
    }
    let v: Value = serde_json::from_slice(&out.stdout).ok()?;
    v.as_array()
        .map(|a| a.iter().map(|x| x.as_i64().unwrap_or(0) as i32).collect())
}

pub type Baseline = BTreeMap<(String, String), Vec<i32>>;

/// Baseline for all (pool text, default pattern) pairs, each from its own fresh process.
pub fn compute_baseline(pool: &BTreeMap<String, String>, dir: &str) -> Result<(Baseline, u64), String> {
    std::fs::create_dir_all(dir).map_err(|e| e.to_string())?;
    for (n, t) in pool {
        std::fs::write(format!("{}/{}", dir, n), t).map_err(|e| e.to_string())?;
    }
    let mut jobs: Vec<(String, String)> = vec![];
    for n in pool.keys() {
        if n.starts_with("blank_") {
            // white-space-only placeholders: present in directories as siblings, never judged themselves
            continue;
        }
        for c in CATS {
            for p in defaults(c) {
                jobs.push((n.clone(), p.label()));
            }
        }
    }
    let next = std::sync::atomic::AtomicUsize::new(0);
    let results: Mutex<Baseline> = Mutex::new(BTreeMap::new());
    let failed: Mutex<Vec<String>> = Mutex::new(vec![]);
    std::thread::scope(|s| {
        for _ in 0..crate::framework::workers() {
            s.spawn(|| loop {
                let i = next.fetch_add(1, std::sync::atomic::Ordering::Relaxed);
                if i >= jobs.len() {
                    break;
                }
                let (n, l) = &jobs[i];
                match solo(dir, n, l) {
                    Some(v) => {
                        results.lock().unwrap().insert((n.clone(), l.clone()), v);
                    }
                    None => failed.lock().unwrap().push(format!("{} {}", n, l)),
                }
            });
        }
    });
    let f = failed.into_inner().unwrap();
    if !f.is_empty() {
        return Err(format!("{} baseline calls failed, e.g. {}", f.len(), f[0]));
    }
    let n = jobs.len() as u64;
    Ok((results.into_inner().unwrap(), n))
}

// ------------------------------------------------------------------------------------------------
// execution of a chain (in the current process)

#[derive(Clone, Debug)]
pub struct Obs {
    pub scn: usize,
    pub step: usize,
    pub task: usize,
    pub thread: String,
    pub text: String,
    pub pat: String,
    pub lines: Option<Vec<i32>>, // None = the call panicked
    pub how: String,
}

fn exec_op(op: &Op, pool: &BTreeMap<String, String>, doc: &HashMap<Cat, Vec<String>>, fine: Option<&FineEnv>) -> Vec<(String, String, Option<Vec<i32>>, String)> {
    match op {
        Op::File { text, file_no, pat } => {
            let src = pool.get(text).cloned().unwrap_or_default();
            let p = match from_label(pat, doc) {
                Some(p) => p,
                None => return vec![],
            };
            let r = analyze_file(&src, *file_no, p).ok().map(|l| l.into_iter().collect());
            vec![(
                text.clone(),
                pat.clone(),
                r,
                format!("analyze_for_*(text of {}, file_no {}, {})", text, file_no, pat),
            )]
        }
        Op::Dir {
            cat,
            pats,
            tree,
            listing,
        } => {
            let cat = Cat::from_name(cat).unwrap_or(Cat::Opt);
            let ps: Vec<Pat> = pats.iter().filter_map(|l| from_label(l, doc)).collect();
            let mut world = World::new("/d");
            for (path, name) in tree {
                world.put_file(
                    path,
                    pool.get(name).cloned().unwrap_or_default().into_bytes(),
                    Fault::None,
                );
            }
            let env = SimEnv::new(
                world,
                Schedule {
                    listing: listing.clone(),
                    iteration: OrderPolicy::default(),
                },
                None,
            );
            let mut maps = Maps::default();
            let r = match fine {
                None => with_env(&env, || analyze_dir_cat(cat, "/d", &ps, &mut maps)),
                Some(f) => {
                    // the thread's installed Env is the fine-grained one; it serves this walk's files
                    *f.inner.lock().unwrap() = Some(env.clone());
                    // (no process-wide fallback here: several walks may be in flight on parked threads,
                    // a helper thread started by solstat could not tell which world is its own; such a
                    // call is counted as an orphan and the whole chain is discarded)
                    let r = crate::simenv::guarded(|| analyze_dir_cat(cat, "/d", &ps, &mut maps));
                    *f.inner.lock().unwrap() = None;
                    r
                }
            };
            let how = format!(
                "analyze_dir(/d = [{}], {} patterns of {})",
                tree.iter().map(|(p, _)| p.as_str()).collect::<Vec<_>>().join(", "),
                ps.len(),
                cat.name()
            );
            let mut out = vec![];
            let flat = maps.flat_cat(cat);
            // group the tree's files by bare name: findings are keyed by the bare name, so files that
            // share one are observed together, as a multiset of line sets
            let mut by_name: BTreeMap<String, Vec<&String>> = BTreeMap::new();
            for (path, name) in tree {
                by_name.entry(base_name(path).to_string()).or_default().push(name);
            }
            for (bare, members) in &by_name {
                if !crate::model::eligible_name(bare) {
                    // an inert name: nothing may be reported under it
                    for l in pats {
                        if flat.iter().any(|e| e.pat == *l && e.file == *bare) {
                            out.push((members[0].clone(), l.clone(), Some(vec![-2]), format!("{} [inert entry {} was analysed]", how, bare)));
                        }
                    }
                    continue;
                }
                for l in pats {
                    let es: Vec<&crate::pats::Entry> = flat
                        .iter()
                        .filter(|e| e.pat == *l && e.file == *bare)
                        .collect();
                    if members.len() == 1 {
                        let lines = if r.is_err() {
                            None
                        } else {
                            match es.len() {
                                0 => Some(vec![]),
                                1 => Some(es[0].lines.clone()),
                                _ => Some(vec![-1]), // duplicated entry: not a verdict the baseline can have
                            }
                        };
                        out.push((members[0].clone(), l.clone(), lines, how.clone()));
                    } else {
                        // several files share the bare name: the multiset of their non-empty verdicts
                        // must be what the directory result lists under that name
                        let mut got: Vec<Vec<i32>> = es.iter().map(|e| e.lines.clone()).collect();
                        got.sort();
                        out.push((
                            format!("{{{}}}", members.iter().map(|m| m.as_str()).collect::<Vec<_>>().join("+")),
                            l.clone(),
                            if r.is_err() { None } else { Some(encode_multiset(&got)) },
                            format!("{} [files sharing the name {}]", how, bare),
                        ));
                    }
                }
            }
            out
        }
    }
}

/// A multiset of line sets flattened into one vector (sets separated by -7).
pub fn encode_multiset(sets: &[Vec<i32>]) -> Vec<i32> {
    let mut v = vec![];
    for s in sets {
        v.extend(s.iter().copied());
        v.push(-7);
    }
    v
}

// ---- fine-grained interleaving: the baton changes hands at yield points inside library calls

/// baton take-overs after a stall, process-wide (reported per chain)
static STEALS: std::sync::atomic::AtomicU64 = std::sync::atomic::AtomicU64::new(0);

struct FineState {
    current: usize,
    live: Vec<bool>,
    rng: Rng,
    num: u32,
    den: u32,
    trace: u64,
    switches: u64,
    yields: u64,
    max_parked_depth_sum: u64,
    depth: Vec<u64>,
    /// bumped whenever the baton holder reaches a scheduling point
    progress: u64,
    /// times a parked thread took the baton because its holder made no progress (it is blocked on
    /// a real synchronisation primitive the simulator does not control)
    steals: u64,
}

struct FineSched {
    m: Mutex<FineState>,
    cv: Condvar,
}

impl FineSched {
    fn pick_other(st: &mut FineState, me: usize) -> Option<usize> {
        let others: Vec<usize> = (0..st.live.len()).filter(|i| *i != me && st.live[*i]).collect();
        if others.is_empty() {
            None
        } else {
            Some(others[st.rng.below(others.len())])
        }
    }
    /// Park until it is `me`'s turn. If the holder of the baton makes no progress for a while it is
    /// blocked on something outside the simulator's control (a real lock, a OnceLock being
    /// initialised by a parked thread ...): take the baton so that the run cannot deadlock.
    fn park<'a>(&'a self, mut g: std::sync::MutexGuard<'a, FineState>, me: usize) -> std::sync::MutexGuard<'a, FineState> {
        let mut seen = g.progress;
        let mut stalled = 0;
        while g.current != me {
            let (ng, to) = self
                .cv
                .wait_timeout(g, std::time::Duration::from_millis(100))
                .unwrap();
            g = ng;
            if g.current == me {
                break;
            }
            if to.timed_out() {
                if g.progress == seen {
                    stalled += 1;
                    if stalled >= 20 {
                        g.steals += 1;
                        g.current = me;
                        break;
                    }
                } else {
                    seen = g.progress;
                    stalled = 0;
                }
            }
        }
        g
    }
    fn wait_turn(&self, me: usize) {
        let g = self.m.lock().unwrap();
        let _g = self.park(g, me);
    }
    fn yield_now(&self, me: usize) {
        let mut g = self.m.lock().unwrap();
        g.yields += 1;
        g.progress += 1;
        g.depth[me] += 1; // number of yield points passed inside the current call (a proxy of progress)
        if g.current != me {
            // this thread lost the baton while it was blocked outside the simulator; wait for its turn
            g = self.park(g, me);
        }
        let (n, d) = (g.num, g.den);
        if g.rng.chance(n, d) {
            if let Some(o) = Self::pick_other(&mut g, me) {
                g.current = o;
                g.switches += 1;
                g.trace = mix(g.trace ^ ((me as u64) << 32 | o as u64) ^ g.yields);
                self.cv.notify_all();
                g = self.park(g, me);
            }
        }
        drop(g);
    }
    fn finish(&self, me: usize) {
        let mut g = self.m.lock().unwrap();
        g.live[me] = false;
        g.progress += 1;
        if g.current == me {
            if let Some(o) = Self::pick_other(&mut g, me) {
                g.current = o;
            }
        }
        self.cv.notify_all();
    }
}

struct FineEnv {
    sched: Arc<FineSched>,
    me: usize,
    /// the simulated file system of the directory walk this thread is currently performing
    inner: Mutex<Option<Arc<SimEnv>>>,
}

impl FineEnv {
    fn fs(&self) -> Option<Arc<SimEnv>> {
        self.inner.lock().unwrap().clone()
    }
}

fn unsupported<T>() -> std::io::Result<T> {
    Err(std::io::Error::new(std::io::ErrorKind::Other, "no file system in fine-grained mode"))
}

impl solstat::verif_shim::Env for FineEnv {
    fn read_dir(&self, p: &std::path::Path) -> std::io::Result<Vec<std::path::PathBuf>> {
        self.sched.yield_now(self.me);
        match self.fs() {
            Some(e) => e.read_dir(p),
            None => unsupported(),
        }
    }
    fn is_dir(&self, p: &std::path::Path) -> bool {
        self.fs().map_or(false, |e| e.is_dir(p))
    }
    fn is_file(&self, p: &std::path::Path) -> bool {
        self.fs().map_or(false, |e| e.is_file(p))
    }
    fn file_len(&self, p: &std::path::Path) -> std::io::Result<u64> {
        match self.fs() {
            Some(e) => e.file_len(p),
            None => unsupported(),
        }
    }
    fn read(&self, p: &std::path::Path) -> std::io::Result<Vec<u8>> {
        self.sched.yield_now(self.me);
        match self.fs() {
            Some(e) => e.read(p),
            None => unsupported(),
        }
    }
    fn write(&self, p: &std::path::Path, d: &[u8], m: solstat::verif_shim::WriteMode) -> std::io::Result<()> {
        match self.fs() {
            Some(e) => e.write(p, d, m),
            None => unsupported(),
        }
    }
    fn remove_file(&self, p: &std::path::Path) -> std::io::Result<()> {
        match self.fs() {
            Some(e) => e.remove_file(p),
            None => unsupported(),
        }
    }
    fn remove_dir_all(&self, p: &std::path::Path) -> std::io::Result<()> {
        match self.fs() {
            Some(e) => e.remove_dir_all(p),
            None => unsupported(),
        }
    }
    fn rename(&self, a: &std::path::Path, b: &std::path::Path) -> std::io::Result<()> {
        match self.fs() {
            Some(e) => e.rename(a, b),
            None => unsupported(),
        }
    }
    fn create_dir_all(&self, p: &std::path::Path) -> std::io::Result<()> {
        match self.fs() {
            Some(e) => e.create_dir_all(p),
            None => unsupported(),
        }
    }
    fn current_dir(&self) -> std::io::Result<std::path::PathBuf> {
        match self.fs() {
            Some(e) => e.current_dir(),
            None => unsupported(),
        }
    }
    fn iteration_order(&self, _: &'static str, keys: &[String]) -> Vec<usize> {
        (0..keys.len()).collect()
    }
    fn args(&self) -> Option<Vec<String>> {
        None
    }
    fn exit(&self, code: i32) -> ! {
        std::panic::resume_unwind(Box::new(solstat::verif_shim::SimExit(code)))
    }
    fn yield_point(&self, _site: &'static str) {
        self.sched.yield_now(self.me);
    }
}

/// Fine-grained scenario: every task on its own OS thread; exactly one thread runs at a time; the
/// baton changes hands at the yield points inside `walk_node_for_targets` and between calls,
/// as the seeded policy decides.
fn exec_fine(
    si: usize,
    scn: &Scn,
    pool: &BTreeMap<String, String>,
    doc: &HashMap<Cat, Vec<String>>,
) -> (Vec<Obs>, u64, u64, u64) {
    let (seed, num, den) = scn.fine.unwrap_or((0, 1, 4));
    let n = scn.tasks.len();
    let sched = Arc::new(FineSched {
        m: Mutex::new(FineState {
            current: 0,
            live: vec![true; n],
            rng: Rng::new(seed),
            num,
            den: den.max(1),
            trace: 0,
            switches: 0,
            yields: 0,
            max_parked_depth_sum: 0,
            depth: vec![0; n],
            progress: 0,
            steals: 0,
        }),
        cv: Condvar::new(),
    });
    let obs: Mutex<Vec<Obs>> = Mutex::new(vec![]);
    std::thread::scope(|s| {
        for t in 0..n {
            let sched = sched.clone();
            let ops = &scn.tasks[t];
            let obs = &obs;
            std::thread::Builder::new()
                .name(format!("task{}", t))
                .stack_size(64 << 20)
                .spawn_scoped(s, move || {
                    sched.wait_turn(t);
                    let fenv = Arc::new(FineEnv {
                        sched: sched.clone(),
                        me: t,
                        inner: Mutex::new(None),
                    });
                    let env: Arc<dyn solstat::verif_shim::Env> = fenv.clone();
                    solstat::verif_shim::install(env);
                    for (oi, op) in ops.iter().enumerate() {
                        {
                            let res = exec_op(op, pool, doc, Some(&fenv));
                            let mut g = obs.lock().unwrap();
                            for (text, pat, lines, how) in res {
                                g.push(Obs {
                                    scn: si,
                                    step: oi,
                                    task: t,
                                    thread: format!("task{}", t),
                                    text,
                                    pat,
                                    lines,
                                    how: format!("{} interleaved with other threads at yield points inside the call", how),
                                });
                            }
                        }
                        sched.yield_now(t);
                    }
                    solstat::verif_shim::uninstall();
                    sched.finish(t);
                })
                .expect("spawn task");
        }
    });
    let g = sched.m.lock().unwrap();
    let mut o = obs.into_inner().unwrap();
    o.sort_by_key(|x| (x.task, x.step));
    STEALS.fetch_add(g.steals, std::sync::atomic::Ordering::Relaxed);
    (o, g.switches, g.yields, g.trace)
}

struct Baton {
    step: usize,
    obs: Vec<Obs>,
    next_op: Vec<usize>,
}

/// Run one scenario: tasks on real OS threads, one at a time, in the scheduled order.
pub fn exec_scn(si: usize, scn: &Scn, pool: &BTreeMap<String, String>, doc: &HashMap<Cat, Vec<String>>) -> (Vec<Obs>, u64, u64, u64) {
    if scn.fine.is_some() {
        let (o, switches, yields, trace) = exec_fine(si, scn, pool, doc);
        return (o, switches, mix(trace ^ 0xf1e), yields);
    }
    let n_tasks = scn.tasks.len();
    let shared = Arc::new((
        Mutex::new(Baton {
            step: 0,
            obs: vec![],
            next_op: vec![0; n_tasks],
        }),
        Condvar::new(),
    ));
    // a well-formed order consumes every task's ops; be robust to malformed ones
    let mut order: Vec<usize> = vec![];
    let mut left: Vec<usize> = scn.tasks.iter().map(|t| t.len()).collect();
    for &t in &scn.order {
        if t < n_tasks && left[t] > 0 {
            left[t] -= 1;
            order.push(t);
        }
    }
    for (t, l) in left.iter().enumerate() {
        for _ in 0..*l {
            order.push(t);
        }
    }
    let mut switches = 0u64;
    for w in order.windows(2) {
        if w[0] != w[1] {
            switches += 1;
        }
    }
    let order = Arc::new(order);
    std::thread::scope(|s| {
        for t in 0..n_tasks {
            let shared = shared.clone();
            let order = order.clone();
            let ops = &scn.tasks[t];
            std::thread::Builder::new()
                .name(format!("task{}", t))
                .stack_size(32 << 20)
                .spawn_scoped(s, move || {
                    let (m, cv) = &*shared;
                    loop {
                        let mut g = m.lock().unwrap();
                        while g.step < order.len() && order[g.step] != t {
                            g = cv.wait(g).unwrap();
                        }
                        if g.step >= order.len() {
                            cv.notify_all();
                            break;
                        }
                        let step = g.step;
                        let oi = g.next_op[t];
                        g.next_op[t] += 1;
                        // perform the operation while holding the baton (nobody else runs)
                        let res = exec_op(&ops[oi], pool, doc, None);
                        for (text, pat, lines, how) in res {
                            g.obs.push(Obs {
                                scn: si,
                                step,
                                task: t,
                                thread: format!("task{}", t),
                                text,
                                pat,
                                lines,
                                how,
                            });
                        }
                        g.step += 1;
                        cv.notify_all();
                    }
                })
                .expect("spawn task");
        }
    });
    let g = shared.0.lock().unwrap();
    (g.obs.clone(), switches, hash_str(91, &format!("{:?}", order)), 0)
}

pub struct ChainResult {
    pub fine_scenarios: u64,
    pub fine_switches: u64,
    pub yield_points: u64,
    pub violation: Option<(String, String, usize)>, // clause, detail, scenario index
    pub observations: u64,
    pub ops: u64,
    pub switches: u64,
    pub same_text_switch: u64,
    pub trace: u64,
    pub schedules: Vec<u64>,
}

pub fn exec_chain(chain: &Chain, base: &Baseline, doc: &HashMap<Cat, Vec<String>>) -> ChainResult {
    let mut r = ChainResult {
        fine_scenarios: 0,
        fine_switches: 0,
        yield_points: 0,
        violation: None,
        observations: 0,
        ops: 0,
        switches: 0,
        same_text_switch: 0,
        trace: 0,
        schedules: vec![],
    };
    for (si, scn) in chain.scenarios.iter().enumerate() {
        let (obs, sw, sched_hash, yields) = exec_scn(si, scn, &chain.pool, doc);
        r.switches += sw;
        r.ops += scn.tasks.iter().map(|t| t.len() as u64).sum::<u64>();
        r.schedules.push(sched_hash);
        if scn.fine.is_some() {
            r.fine_scenarios += 1;
            r.fine_switches += sw;
            r.yield_points += yields;
        }
        // task switch between two calls touching the same text
        let mut last: HashMap<&String, usize> = HashMap::new();
        for o in &obs {
            if let Some(t) = last.get(&o.text) {
                if *t != o.task {
                    r.same_text_switch += 1;
                }
            }
            last.insert(&o.text, o.task);
        }
        for o in &obs {
            r.observations += 1;
            r.trace = mix(r.trace ^ hash_str(92, &format!("{}|{}|{:?}", o.text, o.pat, o.lines)));
            let grouped: Vec<i32>;
            let want: &Vec<i32> = if o.text.starts_with('{') {
                // files sharing a bare name: expected = sorted multiset of their non-empty baselines
                let mut sets: Vec<Vec<i32>> = vec![];
                let mut known = true;
                for m in o.text.trim_matches(|c| c == '{' || c == '}').split('+') {
                    match base.get(&(m.to_string(), o.pat.clone())) {
                        Some(w) => {
                            if !w.is_empty() {
                                sets.push(w.clone());
                            }
                        }
                        None => known = false,
                    }
                }
                if !known {
                    continue;
                }
                sets.sort();
                grouped = encode_multiset(&sets);
                &grouped
            } else {
                match base.get(&(o.text.clone(), o.pat.clone())) {
                    Some(w) => w,
                    None => continue,
                }
            };
            if o.lines.as_ref() != Some(want) && r.violation.is_none() {
                r.violation = Some((
                    "verdict_depends_on_context".into(),
                    format!(
                        "pattern {} on the text of {}: a single call in a fresh process reports lines {:?}; {} (scenario {} of the chain, step {}, on thread {}) observed {}",
                        o.pat,
                        o.text,
                        want,
                        o.how,
                        o.scn,
                        o.step,
                        o.thread,
                        match &o.lines { Some(l) => format!("{:?}", l), None => "a panic".to_string() }
                    ),
                    si,
                ));
            }
        }
        if r.violation.is_some() {
            break;
        }
    }
    r
}

// ------------------------------------------------------------------------------------------------
// generation

pub const FILE_NOS: [usize; 8] = [0, 1, 2, 7, 255, 256, 65_536, 4_000_000_000];

fn gen_op(rng: &mut Rng, names: &[String], focus: &[String]) -> Op {
    if rng.chance(3, 5) {
        // consecutive calls often share category and file number (what a directory walk does)
        let cat = if rng.chance(1, 2) { Cat::Opt } else { *rng.pick(&CATS) };
        let d = defaults(cat);
        let text = if !focus.is_empty() && rng.chance(2, 3) {
            rng.pick(focus).clone()
        } else {
            rng.pick(names).clone()
        };
        Op::File {
            text,
            file_no: if rng.chance(1, 2) { 0 } else { *rng.pick(&FILE_NOS) },
            pat: rng.pick(&d).label(),
        }
    } else {
        gen_op_dir(rng, names, focus)
    }
}

fn gen_op_dir(rng: &mut Rng, names: &[String], focus: &[String]) -> Op {
    let pick_name = |rng: &mut Rng| -> String {
        if !focus.is_empty() && rng.chance(2, 3) {
            rng.pick(focus).clone()
        } else {
            rng.pick(names).clone()
        }
    };
    {
        let cat = *rng.pick(&CATS);
        let pats = gen::gen_pats(rng, cat);
        let n = rng.range(1, 5);
        let alias = rng.chance(1, 3);
        let mut tree: Vec<(String, String)> = vec![];
        let dirs = ["/d", "/d/sub", "/d/sub/deep", "/d/lib", "/d/z"];
        for _ in 0..n {
            let name = pick_name(rng);
            if tree.iter().any(|(_, x)| *x == name) {
                continue;
            }
            let dir = rng.pick(&dirs);
            // sometimes the file carries a name that other files of the tree carry too
            let shown = if alias { "Token.sol".to_string() } else { name.clone() };
            let path = format!("{}/{}", dir, shown);
            if tree.iter().any(|(p, _)| *p == path) {
                continue;
            }
            tree.push((path, name));
        }
        // rarely one directory holds several dozen sources (whatever splits a directory's files into
        // batches or shares has to account for every one of them)
        if !alias && rng.chance(1, 25) {
            tree.clear();
            let n = rng.range(33, 50);
            let wide_dir = *rng.pick(&dirs);
            for i in 0..n {
                tree.push((format!("{}/w{:02}.sol", wide_dir, i), pick_name(rng)));
            }
        }
        // inert neighbours (never analysed; their pool text is irrelevant): a walk must get past them
        if rng.chance(1, 3) {
            for _ in 0..rng.range(1, 2) {
                let dir = rng.pick(&dirs);
                let inert = *rng.pick(&["skip.t.sol", "Test.T.sol", "README", "A.SOL", "notes.txt", ".t.sol"]);
                let path = format!("{}/{}", dir, inert);
                if !tree.iter().any(|(p, _)| *p == path) {
                    tree.push((path, pick_name(rng)));
                }
            }
        }
        // blank placeholder siblings (eligible names, nothing but white space inside)
        let mut pats = pats;
        if rng.chance(1, 6) {
            for _ in 0..rng.range(1, 3) {
                let dir = rng.pick(&dirs);
                let shown = *rng.pick(&["Empty.sol", "0.sol", "Zplaceholder.sol", "Interface.sol", "a.sol"]);
                let path = format!("{}/{}", dir, shown);
                if !tree.iter().any(|(p, _)| crate::world::base_name(p) == shown) && path != "" {
                    tree.push((path, format!("blank_{}.sol", rng.below(3))));
                }
            }
            pats.retain(|p| gen::blank_tolerant(*p));
        }
        let mut w = World::new("/d");
        for (p, _) in &tree {
            w.put_file(p, vec![], Fault::None);
        }
        let lm = rng.below(7);
        let listing = gen::gen_listing(rng, &w, lm);
        Op::Dir {
            cat: cat.name().to_string(),
            pats: pats.iter().map(|p| p.label()).collect(),
            tree,
            listing,
        }
    }
}

pub fn gen_scn(rng: &mut Rng, names: &[String]) -> Scn {
    let n_tasks = rng.range(2, 4);
    // a small focus set makes different tasks touch the same texts
    let mut focus: Vec<String> = vec![];
    for _ in 0..rng.range(1, 3) {
        focus.push(rng.pick(names).clone());
    }
    // equal-length twins travel together
    let eq: Vec<String> = names.iter().filter(|n| n.starts_with("eq")).cloned().collect();
    if !eq.is_empty() && rng.chance(1, 2) {
        let a = rng.pick(&eq).clone();
        let twin = if a.ends_with("a.sol") {
            a.replace("a.sol", "b.sol")
        } else {
            a.replace("b.sol", "a.sol")
        };
        focus = vec![a, twin];
    }
    if rng.chance(1, 3) {
        // fine-grained: direct calls only, interleaved inside the calls; prefer the deeply nested texts
        let deep: Vec<String> = names.iter().filter(|n| n.starts_with("deep")).cloned().collect();
        let n_tasks = rng.range(2, 5);
        let mut tasks = vec![];
        for _ in 0..n_tasks {
            let mut ops = vec![];
            for _ in 0..rng.range(1, 3) {
                let cat = *rng.pick(&CATS);
                let d = defaults(cat);
                let text = if !deep.is_empty() && rng.chance(2, 3) {
                    rng.pick(&deep).clone()
                } else if rng.chance(1, 2) {
                    rng.pick(&focus).clone()
                } else {
                    rng.pick(names).clone()
                };
                if rng.chance(1, 4) {
                    // a directory walk interleaved with the other threads' work
                    ops.push(gen_op_dir(rng, names, &focus));
                    continue;
                }
                ops.push(Op::File {
                    text,
                    file_no: *rng.pick(&FILE_NOS),
                    pat: rng.pick(&d).label(),
                });
            }
            tasks.push(ops);
        }
        let (num, den) = *rng.pick(&[(1u32, 2u32), (1, 4), (1, 16), (1, 64)]);
        return Scn {
            tasks,
            order: vec![],
            fine: Some((rng.next(), num, den)),
        };
    }
    let mut tasks = vec![];
    let mut order = vec![];
    for t in 0..n_tasks {
        let n_ops = rng.range(1, 5);
        let mut ops = vec![];
        for _ in 0..n_ops {
            let op = gen_op(rng, names, &focus);
            if rng.chance(1, 6) {
                ops.push(op.clone()); // repetition
                order.push(t);
            }
            ops.push(op);
            order.push(t);
        }
        tasks.push(ops);
    }
    rng.shuffle(&mut order);
    Scn {
        tasks,
        order,
        fine: None,
    }
}

/// A text whose function bodies are nested `depth` levels deep, with findings at the bottom.
pub fn deep_text(depth: usize, variant: usize) -> String {
    let mut s = String::from("pragma solidity 0.8.16;\n\ncontract Deep {\n    uint256 x;\n");
    for f in 0..2 {
        s.push_str(&format!("    function f{}(uint256 a, uint256 b, uint256 c) public {{\n", f));
        for d in 0..depth {
            s.push_str(&format!("{}if (a > {}) {{\n", " ".repeat(8 + d % 8), d + variant));
        }
        s.push_str("            x = a / b * c + a * 2;\n            x = x + 1;\n");
        for _ in 0..depth {
            s.push_str("        }\n");
        }
        s.push_str("    }\n");
    }
    s.push_str("}\n");
    s
}

pub fn gen_pool(seed: u64, n: usize) -> BTreeMap<String, String> {
    let mut rng = Rng::new(stream_seed(seed, "C15-pool", 0));
    let mut screen = Screen::new();
    let mut pool = BTreeMap::new();
    let mut i = 0;
    while pool.len() < n {
        let mut t = screen.gen_text(&mut rng);
        // a few pairs of equal-length texts with different line structure (same bytes, lines moved)
        if i % 6 == 5 {
            if let Some(prev) = pool.values().last().cloned() {
                let prev: String = prev;
                let mut lines: Vec<&str> = prev.lines().collect();
                if lines.len() > 4 {
                    // move a blank line: same length, different line numbers
                    let variant = format!("{}\n\n{}\n", lines[..2].join("\n"), lines[2..].join("\n"));
                    let original = format!("{}\n{}\n\n", lines[..2].join("\n"), lines[2..].join("\n"));
                    lines.clear();
                    if variant.len() == original.len() && screen.ok(&variant) && screen.ok(&original) {
                        pool.insert(format!("p{}.sol", pool.len()), original);
                        t = variant;
                    }
                }
            }
        }
        pool.insert(format!("p{}.sol", pool.len()), t);
        i += 1;
    }
    // pairs of DIFFERENT texts padded to exactly the same byte length (a trailing comment line):
    // whatever identifies a file by its size, position or number alone confuses them
    let base: Vec<String> = pool.values().cloned().collect();
    let mut k = 0;
    while k + 1 < base.len() && k < 8 {
        let (mut a, mut b) = (base[k].clone(), base[k + 1].clone());
        if a != b {
            let (la, lb) = (a.len(), b.len());
            let pad = |t: &mut String, n: usize| {
                if n >= 3 {
                    t.push_str("//");
                    t.push_str(&"x".repeat(n - 3));
                    t.push('\n');
                }
            };
            if la < lb {
                pad(&mut a, lb - la);
            } else if lb < la {
                pad(&mut b, la - lb);
            }
            if a.len() == b.len() && screen.ok(&a) && screen.ok(&b) {
                pool.insert(format!("eq{}a.sol", k / 2), a);
                pool.insert(format!("eq{}b.sol", k / 2), b);
            }
        }
        k += 2;
    }
    {
        let t = crate::corpus::many_matches_text(900);
        if screen.ok(&t) {
            pool.insert("deepmany.sol".to_string(), t);
        }
    }
    // files whose contracts repeat each other's names (one shared state variable declared in two
    // contracts and written by a third that does not declare it, and seeded variations)
    {
        let idx = |key: &str| crate::corpus::FRAGS.iter().position(|f| f.key == key).unwrap_or(0);
        let t = crate::corpus::render(&crate::corpus::TextSpec {
            pragma: 3,
            contracts: vec![
                vec![idx("clash_plain"), idx("sstore")],
                vec![idx("constant_variables"), idx("clash_plain")],
                vec![idx("clash_writer"), idx("sstore")],
            ],
            spdx: false,
            blank_lines: vec![1, 2, 1],
            clash: true,
            kinds: vec![0, 0, 3],
            extras: vec![],
        });
        if screen.ok(&t) {
            pool.insert("clash_heir.sol".to_string(), t);
        }
        for k in 0..4 {
            let t = crate::corpus::render(&crate::corpus::gen_clash_spec(&mut rng));
            if screen.ok(&t) {
                pool.insert(format!("clash{}.sol", k), t);
            }
        }
    }
    // white-space-only placeholder files (not screened: version-dependent detectors abort on them;
    // they only ever appear as siblings in directory operations restricted to tolerant patterns)
    for (i, t) in ["\n\n\n", "  \n\t\n \n\n\n\n\n", "\n"].iter().enumerate() {
        pool.insert(format!("blank_{}.sol", i), t.to_string());
    }
    for (k, depth) in [10usize, 18, 26, 32].iter().enumerate() {
        let t = deep_text(*depth, k);
        if screen.ok(&t) {
            pool.insert(format!("deep{}.sol", depth), t);
        }
    }
    pool
}

// ------------------------------------------------------------------------------------------------
// child-process entry points

static PREP: Mutex<Option<(String, u64)>> = Mutex::new(None);

fn tmp_dir(ctx: &Ctx) -> String {
    format!(
        "{}/target/tmp/c15-{}-{}-{}",
        ctx.verif_root,
        ctx.seed,
        ctx.tier.name(),
        std::process::id()
    )
}

fn pool_size(tier: Tier) -> usize {
    match tier {
        Tier::Quick => 18,
        Tier::Thorough => 72,
    }
}

/// `sim c15-chain <dir> <chain index>`: generate and execute one chain; print a JSON result.
pub fn chain_main(ctx: &Ctx, dir: &str, index: u64) -> i32 {
    let text = match std::fs::read_to_string(format!("{}/baseline.json", dir)) {
        Ok(t) => t,
        Err(_) => return 2,
    };
    let v: Value = match serde_json::from_str(&text) {
        Ok(v) => v,
        Err(_) => return 2,
    };
    let (pool, base) = match load_pool_baseline(&v) {
        Ok(x) => x,
        Err(_) => return 2,
    };
    let names: Vec<String> = pool.keys().filter(|k| !k.starts_with("blank_")).cloned().collect();
    let mut rng = Rng::new(stream_seed(ctx.seed, "C15", index));
    // most chains are short; every eighth one is long, so that bounded caches and counters inside
    // the process see many more distinct (file, number) combinations than they can hold
    let n_scn = if index % 8 == 7 { SCN_PER_CHAIN * 8 } else { SCN_PER_CHAIN };
    let mut scenarios = vec![];
    for _ in 0..n_scn {
        scenarios.push(gen_scn(&mut rng, &names));
    }
    let chain = Chain { pool, scenarios };
    // one operation runs at a time in this process: its Env may serve as the process-wide fallback
    crate::simenv::EXCLUSIVE.store(true, std::sync::atomic::Ordering::SeqCst);
    let r = exec_chain(&chain, &base, &ctx.doc.names);
    if solstat::verif_shim::orphan_calls() > 0 {
        // threads started by solstat itself bypassed the simulated file system: nothing this chain
        // observed can be trusted
        say!("{}", json!({"unreliable": true, "orphan_calls": solstat::verif_shim::orphan_calls()}));
        return 0;
    }
    let mut out = json!({
        "observations": r.observations, "ops": r.ops, "switches": r.switches,
        "same_text_switch": r.same_text_switch, "trace": r.trace, "schedules": r.schedules,
        "fine_scenarios": r.fine_scenarios, "fine_switches": r.fine_switches, "yield_points": r.yield_points,
        "baton_steals": STEALS.load(std::sync::atomic::Ordering::Relaxed),
        "scenarios": chain.scenarios.len(),
    });
    if let Some((clause, detail, si)) = r.violation {
        let mut c = chain.clone();
        c.scenarios.truncate(si + 1);
        c.prune();
        out["violation"] = json!({"clause": clause, "detail": detail, "chain": c.to_json()});
    }
    out["sample"] = json!({
        "first_scenario_order": chain.scenarios[0].order,
        "first_scenario_fine_policy": chain.scenarios[0].fine.map(|(s, n, d)| format!("seed {} switch probability {}/{} at every yield point", s, n, d)),
        "first_scenario_tasks": chain.scenarios[0].tasks.iter().map(|t| t.iter().map(|o| match o {
            Op::File{text, file_no, pat} => format!("file({}, #{}, {})", text, file_no, pat),
            Op::Dir{cat, pats, tree, ..} => format!("dir({} patterns of {}, [{}])", pats.len(), cat, tree.iter().map(|(p,_)| p.as_str()).collect::<Vec<_>>().join(" ")),
        }).collect::<Vec<_>>()).collect::<Vec<_>>(),
    });
    say!("{}", out);
    0
}

fn load_pool_baseline(v: &Value) -> Result<(BTreeMap<String, String>, Baseline), String> {
    let mut pool = BTreeMap::new();
    for (k, t) in v["pool"].as_object().ok_or("pool")? {
        pool.insert(k.clone(), t.as_str().unwrap_or("").to_string());
    }
    let mut base = BTreeMap::new();
    for b in v["baseline"].as_array().ok_or("baseline")? {
        base.insert(
            (
                b[0].as_str().unwrap_or("").to_string(),
                b[1].as_str().unwrap_or("").to_string(),
            ),
            b[2].as_array()
                .map(|a| a.iter().map(|x| x.as_i64().unwrap_or(0) as i32).collect())
                .unwrap_or_default(),
        );
    }
    Ok((pool, base))
}

/// `sim c15-exec <file>`: execute a stored chain in this (fresh) process against a baseline that
/// is recomputed by fresh single-call processes; prints {"violation": ...} or {}.
pub fn exec_main(ctx: &Ctx, file: &str) -> i32 {
    let text = match std::fs::read_to_string(file) {
        Ok(t) => t,
        Err(_) => return 2,
    };
    let v: Value = match serde_json::from_str(&text) {
        Ok(v) => v,
        Err(_) => return 2,
    };
    let chain = match Chain::from_json(&v) {
        Ok(c) => c,
        Err(_) => return 2,
    };
    let dir = format!("{}.pool", file);
    let base = match compute_baseline(&chain.pool, &dir) {
        Ok((b, _)) => b,
        Err(_) => {
            let _ = std::fs::remove_dir_all(&dir);
            return 2;
        }
    };
    let _ = std::fs::remove_dir_all(&dir);
    crate::simenv::EXCLUSIVE.store(true, std::sync::atomic::Ordering::SeqCst);
    let r = exec_chain(&chain, &base, &ctx.doc.names);
    if solstat::verif_shim::orphan_calls() > 0 {
        say!("{}", json!({}));
        return 0;
    }
    match r.violation {
        Some((clause, detail, _)) => say!("{}", json!({"violation": {"clause": clause, "detail": detail}})),
        None => say!("{}", json!({})),
    }
    0
}

/// Run a child `sim` process with a hard time limit (a hang must never hang the check).
fn run_child(args: &[String]) -> Option<Value> {
    use std::io::Read;
    let exe = std::env::current_exe().ok()?;
    let mut child = std::process::Command::new(exe)
        .args(args)
        .stdout(std::process::Stdio::piped())
        .stderr(std::process::Stdio::null())
        .spawn()
        .ok()?;
    let mut stdout = child.stdout.take()?;
    let reader = std::thread::spawn(move || {
        let mut buf = vec![];
        let _ = stdout.read_to_end(&mut buf);
        buf
    });
    let t0 = std::time::Instant::now();
    let limit = std::time::Duration::from_secs(240);
    loop {
        match child.try_wait() {
            Ok(Some(st)) => {
                let buf = reader.join().ok()?;
                if !st.success() {
                    return None;
                }
                return serde_json::from_slice(&buf).ok();
            }
            Ok(None) => {
                if t0.elapsed() > limit {
                    let _ = child.kill();
                    let _ = child.wait();
                    return Some(json!({"timed_out": true}));
                }
                std::thread::sleep(std::time::Duration::from_millis(5));
            }
            Err(_) => return None,
        }
    }
}

impl Property for C15 {
    fn id(&self) -> &'static str {
        "C15"
    }
    fn budget(&self, tier: Tier) -> u64 {
        match tier {
            Tier::Quick => 1_000,
            Tier::Thorough => 6_000,
        }
    }
    fn prepare(&self, ctx: &Ctx) -> Result<(), String> {
        let dir = tmp_dir(ctx);
        let pool = gen_pool(ctx.seed, pool_size(ctx.tier));
        let (base, calls) = compute_baseline(&pool, &dir)?;
        let bl: Vec<Value> = base
            .iter()
            .map(|((n, l), v)| json!([n, l, v]))
            .collect();
        std::fs::write(
            format!("{}/baseline.json", dir),
            json!({"pool": pool, "baseline": bl}).to_string(),
        )
        .map_err(|e| e.to_string())?;
        *PREP.lock().unwrap() = Some((dir, calls));
        Ok(())
    }
    fn finish(&self, _ctx: &Ctx) {
        if let Some((dir, _)) = PREP.lock().unwrap().take() {
            let _ = std::fs::remove_dir_all(dir);
        }
    }
    fn scenario(&self, _ctx: &Ctx, index: u64, _rng: &mut Rng, _screen: &mut Screen) -> ScnResult {
        let mut r = ScnResult::default();
        let (dir, base_calls) = match PREP.lock().unwrap().clone() {
            Some(x) => x,
            None => {
                r.harness_error = Some("baseline not prepared".into());
                return r;
            }
        };
        let v = match run_child(&["c15-chain".into(), dir, index.to_string()]) {
            Some(v) => v,
            None => {
                r.harness_error = Some(format!("chain process {} failed", index));
                return r;
            }
        };
        if v["timed_out"].as_bool() == Some(true) {
            r.count("chains_killed_after_time_limit", 1);
            return r;
        }
        if v["unreliable"].as_bool() == Some(true) {
            r.count("chains_discarded_because_solstat_started_threads_past_the_seam", 1);
            return r;
        }
        r.evaluations = v["scenarios"].as_u64().unwrap_or(0);
        r.steps = v["ops"].as_u64().unwrap_or(0);
        r.count("observations_compared_with_baseline", v["observations"].as_u64().unwrap_or(0));
        r.count("library_operations", v["ops"].as_u64().unwrap_or(0));
        if index == 0 {
            r.count("baseline_fresh_process_calls", base_calls);
        }
        r.fault("task_switch", v["switches"].as_u64().unwrap_or(0));
        r.fault("chain_without_reset", 1);
        r.fault("switch_inside_library_call", v["fine_switches"].as_u64().unwrap_or(0));
        r.count("fine_grained_scenarios", v["fine_scenarios"].as_u64().unwrap_or(0));
        r.count("yield_points_passed", v["yield_points"].as_u64().unwrap_or(0));
        r.count("baton_taken_over_after_stall", v["baton_steals"].as_u64().unwrap_or(0));
        r.probe("thread_switch_inside_a_library_call", v["fine_switches"].as_u64().unwrap_or(0) > 0);
        let sts = v["same_text_switch"].as_u64().unwrap_or(0);
        r.probe("task_switch_between_calls_on_same_file", sts > 0);
        if let Some(a) = v["schedules"].as_array() {
            for s in a {
                let h = s.as_u64().unwrap_or(0);
                r.interleavings.push(h);
                if sts > 0 {
                    r.nontrivial.push(mix(h ^ index));
                }
            }
        }
        r.states.push(v["trace"].as_u64().unwrap_or(0));
        r.mixin(v["trace"].as_u64().unwrap_or(0));
        if index < 3 {
            r.sample = Some(v["sample"].clone());
        }
        if let Some(viol) = v.get("violation") {
            r.violations.push(Violation {
                clause: viol["clause"].as_str().unwrap_or("").to_string(),
                detail: viol["detail"].as_str().unwrap_or("").to_string(),
                replay: viol["chain"].clone(),
            });
        }
        r
    }
    fn replay(&self, ctx: &Ctx, scn: &Value) -> Result<Option<Violation>, String> {
        // always in a fresh child process: hidden state of this process must not matter
        let dir = format!("{}/target/tmp", ctx.verif_root);
        std::fs::create_dir_all(&dir).map_err(|e| e.to_string())?;
        let file = format!(
            "{}/c15-replay-{}-{:x}.json",
            dir,
            std::process::id(),
            hash_str(93, &scn.to_string())
        );
        std::fs::write(&file, scn.to_string()).map_err(|e| e.to_string())?;
        let v = run_child(&["c15-exec".into(), file.clone()]);
        let _ = std::fs::remove_file(&file);
        let v = v.ok_or("c15-exec child failed")?;
        if v["timed_out"].as_bool() == Some(true) {
            return Err("c15-exec child exceeded its time limit".into());
        }
        Ok(v.get("violation").map(|x| Violation {
            clause: x["clause"].as_str().unwrap_or("").to_string(),
            detail: x["detail"].as_str().unwrap_or("").to_string(),
            replay: scn.clone(),
        }))
    }
    fn shrink(&self, _ctx: &Ctx, scn: &Value) -> Vec<Value> {
        let c = match Chain::from_json(scn) {
            Ok(c) => c,
            Err(_) => return vec![],
        };
        let mut out = vec![];
        let push = |out: &mut Vec<Value>, mut d: Chain| {
            d.prune();
            out.push(d.to_json());
        };
        let n = c.scenarios.len();
        // drop earlier scenarios of the chain (the last one is where the violation shows)
        if n > 1 {
            let mut d = c.clone();
            d.scenarios = vec![c.scenarios[n - 1].clone()];
            push(&mut out, d);
            if n > 2 {
                let mut d = c.clone();
                d.scenarios.drain(..(n - 1) / 2);
                push(&mut out, d);
            }
            for i in 0..n - 1 {
                let mut d = c.clone();
                d.scenarios.remove(i);
                push(&mut out, d);
            }
        }
        for si in 0..n {
            let s = &c.scenarios[si];
            for t in 0..s.tasks.len() {
                if s.tasks.len() > 1 {
                    let mut d = c.clone();
                    d.scenarios[si].tasks.remove(t);
                    d.scenarios[si].order = d.scenarios[si]
                        .order
                        .iter()
                        .filter(|x| **x != t)
                        .map(|x| if *x > t { *x - 1 } else { *x })
                        .collect();
                    push(&mut out, d);
                }
                for oi in 0..s.tasks[t].len() {
                    let mut d = c.clone();
                    d.scenarios[si].tasks[t].remove(oi);
                    // remove the oi-th occurrence of t in the order
                    let mut seen = 0;
                    let mut pos = None;
                    for (k, x) in d.scenarios[si].order.iter().enumerate() {
                        if *x == t {
                            if seen == oi {
                                pos = Some(k);
                                break;
                            }
                            seen += 1;
                        }
                    }
                    if let Some(k) = pos {
                        d.scenarios[si].order.remove(k);
                    }
                    push(&mut out, d);
                }
            }
            if let Some((seed, _n, _d)) = s.fine {
                // coarser switching
                for (n2, d2) in [(1u32, 64u32), (1, 16)] {
                    if s.fine != Some((seed, n2, d2)) {
                        let mut d = c.clone();
                        d.scenarios[si].fine = Some((seed, n2, d2));
                        push(&mut out, d);
                    }
                }
                continue;
            }
            // sequential order
            let mut seq = vec![];
            for (t, ops) in s.tasks.iter().enumerate() {
                for _ in 0..ops.len() {
                    seq.push(t);
                }
            }
            if seq != s.order {
                let mut d = c.clone();
                d.scenarios[si].order = seq;
                push(&mut out, d);
            }
            // simplify dir ops
            for t in 0..s.tasks.len() {
                for oi in 0..s.tasks[t].len() {
                    if let Op::Dir { pats, tree, .. } = &s.tasks[t][oi] {
                        for k in 0..tree.len() {
                            if tree.len() > 1 {
                                let mut d = c.clone();
                                if let Op::Dir { tree, .. } = &mut d.scenarios[si].tasks[t][oi] {
                                    tree.remove(k);
                                }
                                push(&mut out, d);
                            }
                        }
                        if pats.len() > 1 {
                            for k in 0..pats.len() {
                                let mut d = c.clone();
                                if let Op::Dir { pats, .. } = &mut d.scenarios[si].tasks[t][oi] {
                                    pats.remove(k);
                                }
                                push(&mut out, d);
                            }
                        }
                    }
                }
            }
        }
        out
    }
    fn required_probes(&self) -> Vec<&'static str> {
        vec![
            "task_switch_between_calls_on_same_file",
            "thread_switch_inside_a_library_call",
        ]
    }
    fn rule(&self) -> String {
        format!("Baseline: for a seeded pool of screened texts (incl. pairs of equal length with different line structure and pairs of different texts padded to equal length) every (text, default pattern) verdict is computed by one call in a fresh child process. Each evaluation is one scenario of a chain: a chain is {} scenarios (every eighth chain: eight times as many) executed in one child process with nothing reset in between; a scenario is 2-4 tasks on real OS threads passing a baton (the seeded order says which thread performs the next operation), operations are analyze_for_*(text, arbitrary file_no, pattern), repeated calls, and analyze_dir over private worlds embedding pool files (unique names) among varying siblings, depths, listing orders, pattern subsets and orders. A third of the scenarios are fine-grained: 2-5 threads make direct calls (preferring deeply nested texts, 10-32 levels) and the baton changes hands at the cooperative yield points inside the AST walker (guarded hook), with a seeded switch probability of 1/2 .. 1/64 per point, so calls of different threads are interleaved mid-walk, one thread running at a time. Every observation (direct result, or the entry/absence attributable to that file in a directory result) must equal the baseline. Non-trivial = the chain contains a task switch between two operations touching the same text; distinct = distinct baton order. Replay and every minimisation step run in a fresh process and recompute the baseline.", SCN_PER_CHAIN)
    }
    fn assumptions(&self) -> Vec<String> {
        vec![
            "call-granular interleaving only (one thread runs at a time); truly concurrent execution with preemption is the simmiri tier".into(),
            "the baseline trusts a single call in a fresh process (the setting the existing tests establish behaviour in)".into(),
        ]
    }
    fn components(&self) -> Value {
        json!({
            "real": ["analyze_for_optimization / _vulnerability / _qa", "the three analyze_dir walkers", "all detectors, solang-parser, regex", "real OS threads (std::thread) and real process boundaries for the baseline"],
            "stubbed": ["who runs next: baton scheduler driven by the seeded order", "std::fs under analyze_dir -> in-memory tree"],
        })
    }
}
