//! Small executable reference models: the eligibility predicate of the specification and the
//! independent walk that says what a directory analysis must return.

use crate::pats::{analyze_file, Entry, Flat, Pat};
use crate::world::{base_name, Fault, Node, World};

/// C16's predicate, as the property states it: the name ends in ".sol" and is not a Foundry test
/// file (".t.sol" in any letter case). Names with ".t.sol" in the middle are never generated.
pub fn eligible_name(name: &str) -> bool {
    name.ends_with(".sol") && !name.to_lowercase().ends_with(".t.sol")
}

/// Eligible files beneath `root` (absolute), at any depth, sorted by path.
pub fn eligible_files(world: &World, root: &str) -> Vec<String> {
    let prefix = if root == "/" {
        "/".to_string()
    } else {
        format!("{}/", root)
    };
    world
        .nodes
        .iter()
        .filter(|(k, n)| {
            k.starts_with(&prefix) && matches!(n, Node::File { .. }) && eligible_name(base_name(k))
        })
        .map(|(k, _)| k.clone())
        .collect()
}

/// Per eligible file beneath `root` (absolute path, at any depth): the entries the real per-file
/// function yields for the selected patterns when called directly (file number 0); entries with
/// an empty line set are absent. `Err` = the model cannot judge this world (unreadable or
/// unanalysable eligible file), which is a workload problem, not a verdict.
pub fn expected_by_path(
    world: &World,
    root: &str,
    pats: &[Pat],
) -> Result<std::collections::BTreeMap<String, Vec<Entry>>, String> {
    let mut out = std::collections::BTreeMap::new();
    for f in eligible_files(world, root) {
        let (bytes, fault) = world.file(&f).unwrap();
        if fault != Fault::None {
            return Err(format!("eligible file {} has a read fault", f));
        }
        let text = std::str::from_utf8(bytes)
            .map_err(|_| format!("eligible file {} is not UTF-8", f))?;
        let mut v = vec![];
        for p in pats {
            let lines = analyze_file(text, 0, *p)
                .map_err(|a| format!("direct analysis of {} for {:?} failed: {:?}", f, p, a))?;
            if !lines.is_empty() {
                v.push(Entry {
                    pat: p.label(),
                    file: base_name(&f).to_string(),
                    lines: lines.into_iter().collect(),
                });
            }
        }
        out.insert(f, v);
    }
    Ok(out)
}

/// What analysing `root` must yield for the selected patterns (sorted multiset).
pub fn expected_findings(world: &World, root: &str, pats: &[Pat]) -> Result<Flat, String> {
    let mut out: Flat = expected_by_path(world, root, pats)?
        .into_values()
        .flatten()
        .collect();
    out.sort();
    Ok(out)
}

/// Multiset difference, for messages: (missing from actual, unexpected in actual).
pub fn multiset_diff(expected: &Flat, actual: &Flat) -> (Flat, Flat) {
    let mut e = expected.clone();
    let mut a = actual.clone();
    e.sort();
    a.sort();
    let mut missing = vec![];
    let mut extra = vec![];
    let (mut i, mut j) = (0, 0);
    while i < e.len() || j < a.len() {
        if i < e.len() && j < a.len() && e[i] == a[j] {
            i += 1;
            j += 1;
        } else if j >= a.len() || (i < e.len() && e[i] < a[j]) {
            missing.push(e[i].clone());
            i += 1;
        } else {
            extra.push(a[j].clone());
            j += 1;
        }
    }
    (missing, extra)
}

pub fn show_entries(v: &Flat, max: usize) -> String {
    let mut s = String::new();
    for e in v.iter().take(max) {
        s.push_str(&format!("({}, {}, {:?}) ", e.pat, e.file, e.lines));
    }
    if v.len() > max {
        s.push_str(&format!("... +{} more", v.len() - max));
    }
    s
}
