//! Orchestration of the *simmiri* engine (the program lives in /verif/sim-miri): run it under
//! `cargo +nightly miri run` for a range of Miri seeds (each seed fixes the thread schedule and
//! the RandomState entropy, isolation on), compare all outputs with each other and with the
//! native run of the same program, and treat Miri diagnostics (data race, undefined behaviour) and
//! MISMATCH lines as violations.

use crate::framework::{Ctx, ScnResult, Tier, Violation};
use crate::rng::hash_str;
use serde_json::{json, Value};
use std::process::Command;

pub fn applies(id: &str) -> bool {
    id == "C13" || id == "C15"
}

fn miri_dir(ctx: &Ctx) -> String {
    format!("{}/sim-miri", ctx.verif_root)
}

pub struct MiriOut {
    pub ok: bool,
    pub results: Vec<String>,
    pub mismatches: Vec<String>,
    pub diagnostics: Vec<String>,
    pub raw_tail: String,
}

fn run_native(ctx: &Ctx, args: &[String]) -> Option<String> {
    let o = Command::new("cargo")
        .args(["run", "-q", "--offline", "--"])
        .args(args)
        .current_dir(miri_dir(ctx))
        .env_remove("RUSTFLAGS")
        .env_remove("MIRIFLAGS")
        .output()
        .ok()?;
    let so = String::from_utf8_lossy(&o.stdout).to_string();
    so.lines().find(|l| l.starts_with("RESULT")).map(|l| l.to_string())
}

pub fn run_miri(ctx: &Ctx, args: &[String], seed_from: u64, seed_to: u64) -> MiriOut {
    let flags = format!(
        "-Zmiri-many-seeds={}..{} -Zmiri-preemption-rate=0.05",
        seed_from, seed_to
    );
    let mut cmd = Command::new("cargo");
    cmd.args(["+nightly", "miri", "run", "-q", "--offline", "--"])
        .args(args)
        .current_dir(miri_dir(ctx))
        .env("MIRIFLAGS", flags)
        .env_remove("RUSTFLAGS");
    let o = crate::proc::run(&mut cmd, std::time::Duration::from_secs(1800));
    let o = match o {
        Ok(o) if o.timed_out => {
            return MiriOut {
                ok: false,
                results: vec![],
                mismatches: vec![],
                diagnostics: vec!["cargo miri run killed after 30 minutes".to_string()],
                raw_tail: String::from_utf8_lossy(&o.stderr).chars().rev().take(600).collect::<String>().chars().rev().collect(),
            }
        }
        Ok(o) => o,
        Err(e) => {
            return MiriOut {
                ok: false,
                results: vec![],
                mismatches: vec![],
                diagnostics: vec![format!("cannot start cargo miri: {}", e)],
                raw_tail: String::new(),
            }
        }
    };
    let so = String::from_utf8_lossy(&o.stdout).to_string();
    let se = String::from_utf8_lossy(&o.stderr).to_string();
    let results: Vec<String> = so
        .lines()
        .filter(|l| l.starts_with("RESULT"))
        .map(|l| l.to_string())
        .collect();
    let mismatches: Vec<String> = so
        .lines()
        .filter(|l| l.starts_with("MISMATCH"))
        .map(|l| l.to_string())
        .collect();
    let diagnostics: Vec<String> = se
        .lines()
        .filter(|l| {
            l.starts_with("error")
                || l.contains("Undefined Behavior")
                || l.contains("Data race")
                || l.contains("panicked at")
                || l.contains("failing seed")
        })
        .take(8)
        .map(|l| l.to_string())
        .collect();
    let tail: String = se
        .lines()
        .rev()
        .take(12)
        .collect::<Vec<_>>()
        .into_iter()
        .rev()
        .collect::<Vec<_>>()
        .join("\n");
    MiriOut {
        ok: o.code == Some(0),
        results,
        mismatches,
        diagnostics,
        raw_tail: tail,
    }
}

fn strip_order(l: &str) -> String {
    // "RESULT c13 <hash> bytes=N order=<h>": the order fingerprint legitimately varies
    l.split(" order=").next().unwrap_or(l).to_string()
}

/// The simmiri stage of a check. Returns counters plus violations.
pub fn stage(id: &str, ctx: &Ctx) -> ScnResult {
    let mut r = ScnResult::default();
    if std::env::var("VERIF_SKIP_MIRI").is_ok() {
        r.count("miri_skipped_by_env", 1);
        return r;
    }
    let base = (ctx.seed % 4096) * 64;
    let batches: Vec<(Vec<String>, u64)> = match (id, ctx.tier) {
        ("C13", Tier::Quick) => (0..2)
            .map(|v| (vec!["c13".to_string(), ((ctx.seed as usize + v * 7) % 30).to_string()], 6))
            .collect(),
        ("C13", Tier::Thorough) => (0..30).map(|v| (vec!["c13".to_string(), v.to_string()], 8)).collect(),
        ("C15", Tier::Quick) => (0..4)
            .map(|v| (vec!["c15".to_string(), ((ctx.seed as usize + v * 5) % 23).to_string()], 4))
            .collect(),
        ("C15", Tier::Thorough) => {
            let mut b: Vec<(Vec<String>, u64)> =
                (0..23).map(|v| (vec!["c15".to_string(), v.to_string()], 8)).collect();
            // four threads deep inside the recursive walker at the same time
            b.push((vec!["c15deep".to_string(), "14".to_string()], 4));
            b.push((vec!["c15deep".to_string(), "20".to_string()], 4));
            b
        }
        _ => vec![],
    };
    // the native twin first (also builds it), then the Miri batches, a few at a time
    let mut natives: Vec<String> = vec![];
    for (args, _) in &batches {
        match run_native(ctx, args) {
            Some(n) => natives.push(n),
            None => {
                r.harness_error = Some(format!("native run of sim-miri {:?} failed", args));
                return r;
            }
        }
    }
    let outs: Vec<MiriOut> = {
        let mut outs: Vec<Option<MiriOut>> = (0..batches.len()).map(|_| None).collect();
        for chunk_start in (0..batches.len()).step_by(4) {
            let chunk_end = (chunk_start + 4).min(batches.len());
            let results: Vec<(usize, MiriOut)> = std::thread::scope(|s| {
                let hs: Vec<_> = (chunk_start..chunk_end)
                    .map(|bi| {
                        let (args, n) = &batches[bi];
                        let from = base + (bi as u64) * 16;
                        s.spawn(move || (bi, run_miri(ctx, args, from, from + n)))
                    })
                    .collect();
                hs.into_iter().map(|h| h.join().unwrap()).collect()
            });
            for (bi, o) in results {
                outs[bi] = Some(o);
            }
        }
        outs.into_iter().map(|o| o.unwrap()).collect()
    };
    for (bi, ((args, n), out)) in batches.iter().zip(outs.into_iter()).enumerate() {
        let native = natives[bi].clone();
        let from = base + (bi as u64) * 16;
        r.evaluations += out.results.len() as u64;
        r.steps += out.results.len() as u64;
        r.count("miri_seeds", *n);
        r.fault("miri_seed", *n);
        for i in 0..*n {
            r.interleavings.push(hash_str(121, &format!("miri|{:?}|{}", args, from + i)));
        }
        let mut orders = std::collections::BTreeSet::new();
        for l in &out.results {
            if let Some(o) = l.split(" order=").nth(1) {
                orders.insert(o.to_string());
            }
            r.nontrivial.push(hash_str(122, &format!("{:?}|{}", args, l)));
        }
        r.count("miri_distinct_real_hashmap_orders", orders.len() as u64);
        r.mixin(hash_str(123, &format!("{:?}{:?}", args, out.results.iter().map(|l| strip_order(l)).collect::<Vec<_>>())));
        let replay = json!({"engine": "simmiri", "args": args, "seed_from": from, "seed_to": from + n});
        if !out.mismatches.is_empty() {
            r.violations.push(Violation {
                clause: "miri_mismatch".into(),
                detail: format!("under Miri (seeds {}..{}): {}", from, from + n, out.mismatches[0]),
                replay,
            });
            continue;
        }
        if !out.ok || (out.results.len() as u64) < *n {
            // a Miri diagnostic (data race, UB, panic) or a toolchain problem
            let is_diag = out
                .diagnostics
                .iter()
                .any(|d| d.contains("Undefined Behavior") || d.contains("Data race") || d.contains("panicked"));
            if is_diag {
                r.violations.push(Violation {
                    clause: "miri_diagnostic".into(),
                    detail: format!(
                        "Miri reports a problem while running {:?} with seeds {}..{}: {}",
                        args,
                        from,
                        from + n,
                        out.diagnostics.join(" | ")
                    ),
                    replay,
                });
            } else {
                r.harness_error = Some(format!(
                    "cargo miri run {:?} failed without a recognisable diagnostic ({} of {} results):\n{}",
                    args,
                    out.results.len(),
                    n,
                    out.raw_tail
                ));
            }
            continue;
        }
        let want = strip_order(&native);
        if let Some(bad) = out.results.iter().find(|l| strip_order(l) != want) {
            r.violations.push(Violation {
                clause: "miri_result_differs_from_native".into(),
                detail: format!(
                    "{:?}: under some Miri seed in {}..{} the program prints '{}', natively '{}' (the output must not depend on RandomState or the thread schedule)",
                    args,
                    from,
                    from + n,
                    bad,
                    native
                ),
                replay,
            });
        }
    }
    r
}

pub fn replay(ctx: &Ctx, scn: &Value) -> Result<Option<Violation>, String> {
    let args: Vec<String> = scn["args"]
        .as_array()
        .ok_or("args")?
        .iter()
        .map(|x| x.as_str().unwrap_or("").to_string())
        .collect();
    let from = scn["seed_from"].as_u64().unwrap_or(0);
    let to = scn["seed_to"].as_u64().unwrap_or(from + 1);
    let native = run_native(ctx, &args).ok_or("native run failed")?;
    let out = run_miri(ctx, &args, from, to);
    if let Some(m) = out.mismatches.first() {
        return Ok(Some(Violation {
            clause: "miri_mismatch".into(),
            detail: m.clone(),
            replay: scn.clone(),
        }));
    }
    if !out.ok {
        return Ok(Some(Violation {
            clause: "miri_diagnostic".into(),
            detail: out.diagnostics.join(" | "),
            replay: scn.clone(),
        }));
    }
    let want = strip_order(&native);
    if let Some(bad) = out.results.iter().find(|l| strip_order(l) != want) {
        return Ok(Some(Violation {
            clause: "miri_result_differs_from_native".into(),
            detail: format!("'{}' vs native '{}'", bad, native),
            replay: scn.clone(),
        }));
    }
    Ok(None)
}
