//! Engine *simbin*: the real `solstat` binary (built with the guard, so that the listing and
//! iteration orders come from SOLSTAT_VERIF_SEED) run as a child process on a real scratch tree.
//! Everything is real here -- main.rs, clap, std::fs, exit status; the only decisions are the two
//! seeded orderings. Sees what the in-process engine cannot: changes in main.rs and file-system
//! calls that bypass the seam.

use crate::corpus::Screen;
use crate::framework::{Ctx, ScnResult, Violation};
use crate::gen::{self, CwdPlace, TreeKnobs, CWD_PLACES};
use crate::model::{eligible_name, expected_findings};
use crate::pats::{by_name, defaults, Cat, Flat, Pat, CATS};
use crate::report::{self, Tables};
use crate::rng::{hash_str, mix, Rng};
use crate::world::{base_name, join, Fault, Node, World};
use serde_json::{json, Value};
use std::path::{Path, PathBuf};
use std::process::Command;
use std::sync::atomic::{AtomicU64, Ordering};

static COUNTER: AtomicU64 = AtomicU64::new(0);

pub fn bin_path() -> Option<String> {
    std::env::var("SOLSTAT_BIN").ok().filter(|p| Path::new(p).is_file())
}

fn scratch_base() -> PathBuf {
    let t = std::env::var("VERIF_SCRATCH")
        .or_else(|_| std::env::var("TMPDIR"))
        .unwrap_or_else(|_| "/tmp".to_string());
    PathBuf::from(t)
}

pub struct Scratch {
    pub root: PathBuf,
}

impl Scratch {
    pub fn new() -> Scratch {
        let n = COUNTER.fetch_add(1, Ordering::Relaxed);
        let root = scratch_base().join(format!("solstat-simbin-{}-{}", std::process::id(), n));
        let _ = std::fs::remove_dir_all(&root);
        std::fs::create_dir_all(&root).expect("scratch dir");
        Scratch { root }
    }
    pub fn real(&self, world_path: &str) -> PathBuf {
        self.root.join(world_path.trim_start_matches('/'))
    }
}

impl Drop for Scratch {
    fn drop(&mut self) {
        let _ = std::fs::remove_dir_all(&self.root);
    }
}

/// Write the world under the scratch root. Read faults cannot exist on a real file system and are
/// dropped; absolute world paths inside *.toml files are re-rooted.
pub fn materialise(world: &World, s: &Scratch) {
    for (p, n) in &world.nodes {
        let rp = s.real(p);
        match n {
            Node::Dir => {
                let _ = std::fs::create_dir_all(&rp);
            }
            Node::File { bytes, .. } => {
                if let Some(parent) = rp.parent() {
                    let _ = std::fs::create_dir_all(parent);
                }
                let mut b = bytes.clone();
                if p.ends_with(".toml") {
                    if let Ok(t) = String::from_utf8(b.clone()) {
                        b = t
                            .replace("'/w", &format!("'{}/w", s.root.display()))
                            .into_bytes();
                    }
                }
                let _ = std::fs::write(&rp, b);
            }
        }
    }
    let _ = std::fs::create_dir_all(s.real(&world.cwd));
}

/// path -> Some(bytes) for files, None for directories
pub type Snap = std::collections::BTreeMap<String, Option<Vec<u8>>>;

pub fn snapshot(s: &Scratch) -> Snap {
    fn walk(dir: &Path, root: &Path, out: &mut Snap) {
        let rd = match std::fs::read_dir(dir) {
            Ok(r) => r,
            Err(_) => return,
        };
        for e in rd.flatten() {
            let p = e.path();
            let rel = format!("/{}", p.strip_prefix(root).unwrap().to_string_lossy());
            if p.is_dir() {
                out.insert(rel, None);
                walk(&p, root, out);
            } else {
                out.insert(rel, Some(std::fs::read(&p).unwrap_or_default()));
            }
        }
    }
    let mut out = Snap::new();
    walk(&s.root, &s.root, &mut out);
    out
}

pub struct BinRun {
    pub status: i32,
    pub stderr: String,
}

/// argv elements that are absolute world paths are re-rooted.
pub fn run_bin(bin: &str, s: &Scratch, cwd: &str, argv: &[String], seed: u64) -> BinRun {
    let mut cmd = Command::new(bin);
    for a in argv.iter().skip(1) {
        if a.starts_with("/w") || a.starts_with("/home") {
            cmd.arg(s.real(a));
        } else {
            cmd.arg(a);
        }
    }
    cmd.current_dir(s.real(cwd));
    cmd.env("SOLSTAT_VERIF_SEED", seed.to_string());
    cmd.env_remove("RUST_BACKTRACE");
    // the rest of the process environment is a function of the seed too: simulated wall clock
    // (LD_PRELOAD interposer, up to three years ahead), time zone, locale, user, home
    if let Ok(lib) = std::env::var("VERIF_FAKECLOCK") {
        if Path::new(&lib).is_file() {
            cmd.env("LD_PRELOAD", lib);
            cmd.env("SOLSTAT_VERIF_CLOCK_OFFSET", clock_offset(seed).to_string());
        }
    }
    let h = crate::rng::mix(seed ^ 0xe7);
    cmd.env("TZ", ["UTC", "Asia/Tokyo", "America/New_York", "Australia/Lord_Howe"][(h % 4) as usize]);
    cmd.env("LANG", ["C", "en_US.UTF-8", "de_DE.UTF-8"][((h >> 8) % 3) as usize]);
    cmd.env("USER", ["root", "alice", "builder"][((h >> 16) % 3) as usize]);
    cmd.env("HOME", ["/root", "/home/alice", "/nonexistent"][((h >> 24) % 3) as usize]);
    cmd.env("COLUMNS", ["80", "200", "20"][((h >> 32) % 3) as usize]);
    match crate::proc::run(&mut cmd, std::time::Duration::from_secs(60)) {
        Ok(o) if o.timed_out => BinRun {
            status: -3,
            stderr: "killed after 60 s (the run did not terminate)".to_string(),
        },
        Ok(o) => BinRun {
            status: o.code.unwrap_or(-1),
            stderr: String::from_utf8_lossy(&o.stderr).chars().take(400).collect(),
        },
        Err(e) => BinRun {
            status: -2,
            stderr: format!("spawn failed: {}", e),
        },
    }
}

/// Simulated wall-clock shift of a run, in seconds (0 .. three years), a function of its seed.
pub fn clock_offset(seed: u64) -> u64 {
    crate::rng::mix(seed ^ 0xc10c) % (3 * 365 * 24 * 3600)
}

fn strip_faults(w: &mut World) {
    for n in w.nodes.values_mut() {
        if let Node::File { bytes, fault } = n {
            if *fault != Fault::None {
                *fault = Fault::None;
                *bytes = vec![0xff, 0xfe, 0x00, 0xc3];
            }
        }
    }
}

fn gen_tree_world(rng: &mut Rng, screen: &mut Screen, inert_pct: u32) -> World {
    let mut world = World::new("/w");
    let mut k = TreeKnobs::draw(rng);
    k.inert_pct = inert_pct;
    k.min_eligible = rng.range(1, 3);
    k.max_dirs = k.max_dirs.max(1);
    k.max_depth = k.max_depth.max(1);
    gen::gen_tree(rng, screen, &mut world, "/w/c", &k);
    strip_faults(&mut world);
    world
}

/// The patterns the simulator can read back from a report (it has their section text), per
/// category, as (documented name, pattern). A pattern added to solstat later is not in here and is
/// kept out of the runs whose report is parsed.
fn known_selection(ctx: &Ctx) -> Vec<(Cat, Vec<(String, Pat)>)> {
    let mut out = vec![];
    for c in [Cat::Opt, Cat::Vul, Cat::Qa] {
        let mut v: Vec<(String, Pat)> = vec![];
        for n in ctx.doc.of(c) {
            if let Ok(p) = by_name(c, n) {
                if report::has_row(p) && !v.iter().any(|(_, q)| *q == p) {
                    v.push((n.clone(), p));
                }
            }
        }
        out.push((c, v));
    }
    out
}

fn known_toml(ctx: &Ctx, path: &str) -> String {
    let sel = known_selection(ctx);
    let names = |c: Cat| -> Vec<String> {
        sel.iter()
            .find(|(k, _)| *k == c)
            .map(|(_, v)| v.iter().map(|(n, _)| n.clone()).collect())
            .unwrap_or_default()
    };
    crate::c18::toml_text(path, &names(Cat::Opt), &names(Cat::Vul), &names(Cat::Qa))
}

fn model_all(ctx: &Ctx, world: &World, root: &str) -> Result<Flat, String> {
    let mut all = vec![];
    for (_, v) in known_selection(ctx) {
        let pats: Vec<Pat> = v.iter().map(|(_, p)| *p).collect();
        all.extend(expected_findings(world, root, &pats)?);
    }
    all.sort();
    Ok(all)
}

fn read_report(s: &Scratch, cwd: &str) -> Option<Vec<u8>> {
    std::fs::read(s.real(&join(cwd, "solstat_report.md"))).ok()
}

fn world_json(w: &World) -> Value {
    w.to_json()
}

// ------------------------------------------------------------------------------------------------

/// One simbin scenario for property `id`. Returns None if the property has no simbin part.
pub fn scenario(id: &str, ctx: &Ctx, bin: &str, rng: &mut Rng, screen: &mut Screen) -> Option<ScnResult> {
    let mut r = ScnResult::default();
    match id {
        "C03" | "C11" | "C12" => {
            let world = gen_tree_world(rng, screen, 20);
            let seed = rng.next();
            let v = walk_case(ctx, id, bin, &world, seed, &mut r);
            if let Some((clause, detail)) = v {
                r.violations.push(Violation {
                    clause,
                    detail,
                    replay: json!({"engine": "simbin", "kind": "walk", "world": world_json(&world), "seed": seed}),
                });
            }
        }
        "C13" => {
            let world = gen_tree_world(rng, screen, 0);
            let seeds: Vec<u64> = (0..4).map(|_| rng.next()).collect();
            if let Some((clause, detail)) = seeds_case(bin, &world, &seeds, &mut r) {
                r.violations.push(Violation {
                    clause,
                    detail,
                    replay: json!({"engine": "simbin", "kind": "seeds", "world": world_json(&world), "seeds": seeds}),
                });
            }
        }
        "C16" => {
            let world = gen_tree_world(rng, screen, 50);
            let seed = rng.next();
            if let Some((clause, detail)) = inert_case(bin, &world, seed, &mut r) {
                r.violations.push(Violation {
                    clause,
                    detail,
                    replay: json!({"engine": "simbin", "kind": "inert", "world": world_json(&world), "seed": seed}),
                });
            }
        }
        "C18" => {
            let mut world = gen_tree_world(rng, screen, 20);
            world.put_file("/w/README.md", b"readme\n".to_vec(), Fault::None);
            world.put_file("/home/u/notes.txt", b"notes\n".to_vec(), Fault::None);
            let place = *rng.pick(&CWD_PLACES);
            let spelled = gen::place_cwd(rng, &mut world, "/w/c", place);
            let stale = match rng.below(4) {
                0 => None,
                1 => Some(b"## Old\n\n### Lines\n- ghost.sol:99\n\n\n".to_vec()),
                2 => Some(vec![b'x'; 200_000]),
                _ => Some(vec![]),
            };
            let seed = rng.next();
            r.fault(place.name(), 1);
            if let Some((clause, detail)) = effects_case(bin, &world, &spelled, &stale, seed, &mut r) {
                r.violations.push(Violation {
                    clause,
                    detail,
                    replay: json!({"engine": "simbin", "kind": "effects", "world": world_json(&world), "dir": spelled,
                        "stale": stale.as_ref().map(|b| crate::world::hex(b)), "seed": seed}),
                });
            }
        }
        "C14" => {
            let case = rng.below(5);
            let seed = rng.next();
            let name_idx = rng.next() as usize;
            if let Some((clause, detail)) = config_case(ctx, bin, case, name_idx, seed, &mut r) {
                r.violations.push(Violation {
                    clause,
                    detail,
                    replay: json!({"engine": "simbin", "kind": "config", "case": case, "name_idx": name_idx, "seed": seed}),
                });
            }
        }
        "C15" => {
            let world = gen_tree_world(rng, screen, 0);
            let seed = rng.next();
            if let Some((clause, detail)) = alone_case(ctx, bin, &world, seed, &mut r) {
                r.violations.push(Violation {
                    clause,
                    detail,
                    replay: json!({"engine": "simbin", "kind": "alone", "world": world_json(&world), "seed": seed}),
                });
            }
        }
        _ => return None,
    }
    r.count("binary_scenarios", 1);
    Some(r)
}

pub fn replay(id: &str, ctx: &Ctx, scn: &Value) -> Result<Option<Violation>, String> {
    let bin = bin_path().ok_or("SOLSTAT_BIN not set (run through ./check)")?;
    let mut r = ScnResult::default();
    let seed = scn["seed"].as_u64().unwrap_or(0);
    let v = match scn["kind"].as_str() {
        Some("walk") => walk_case(ctx, id, &bin, &World::from_json(&scn["world"])?, seed, &mut r),
        Some("seeds") => {
            let seeds: Vec<u64> = scn["seeds"]
                .as_array()
                .ok_or("seeds")?
                .iter()
                .map(|x| x.as_u64().unwrap_or(0))
                .collect();
            seeds_case(&bin, &World::from_json(&scn["world"])?, &seeds, &mut r)
        }
        Some("inert") => inert_case(&bin, &World::from_json(&scn["world"])?, seed, &mut r),
        Some("effects") => {
            let stale = match scn["stale"].as_str() {
                Some(h) => Some(crate::world::unhex(h)?),
                None => None,
            };
            effects_case(
                &bin,
                &World::from_json(&scn["world"])?,
                scn["dir"].as_str().unwrap_or("/w/c"),
                &stale,
                seed,
                &mut r,
            )
        }
        Some("config") => config_case(
            ctx,
            &bin,
            scn["case"].as_u64().unwrap_or(0) as usize,
            scn["name_idx"].as_u64().unwrap_or(0) as usize,
            seed,
            &mut r,
        ),
        Some("alone") => alone_case(ctx, &bin, &World::from_json(&scn["world"])?, seed, &mut r),
        _ => return Err("simbin scenario kind".into()),
    };
    Ok(v.map(|(clause, detail)| Violation {
        clause,
        detail,
        replay: scn.clone(),
    }))
}

// ------------------------------------------------------------------------------------------------
// cases

fn triples_of_report(text: &str, t: &Tables) -> (Vec<(String, String, i32)>, usize) {
    let parsed = report::parse(text, t);
    let mut out = vec![];
    let mut unattributed = 0;
    for s in &parsed.sections {
        match s.pat {
            Some(p) => {
                for (f, l) in &s.items {
                    out.push((p.label(), f.clone(), l.parse::<i32>().unwrap_or(-1)));
                }
            }
            None => unattributed += 1,
        }
    }
    out.sort();
    (out, unattributed)
}

/// Real binary on a real tree: the report, read back, must be the union of the per-file results
/// (C03); C11/C12 judge the same report against the model findings.
fn walk_case(ctx: &Ctx, id: &str, bin: &str, world: &World, seed: u64, r: &mut ScnResult) -> Option<(String, String)> {
    let expected = match model_all(ctx, world, "/w/c") {
        Ok(e) => e,
        Err(_) => {
            r.count("binary_unjudgeable", 1);
            return None;
        }
    };
    let s = Scratch::new();
    let mut world = world.clone();
    world.put_file("/w/known.toml", known_toml(ctx, "/w/c").into_bytes(), Fault::None);
    let world = &world;
    materialise(world, &s);
    let argv = vec![
        "solstat".to_string(),
        "--path".to_string(),
        "/w/c".to_string(),
        "--toml".to_string(),
        "/w/known.toml".to_string(),
    ];
    let run = run_bin(bin, &s, "/w", &argv, seed);
    r.evaluations += 1;
    r.steps += 1;
    r.count("binary_runs", 1);
    r.fault("binary_seeded_orders", 1);
    r.mixin(hash_str(101, &format!("{}{:?}", run.status, read_report(&s, "/w"))));
    if run.status != 0 {
        return Some((
            "binary_run_failed".into(),
            format!("solstat --path <tree> exited with {} on a tree of analysable files: {}", run.status, run.stderr),
        ));
    }
    let text = String::from_utf8_lossy(&read_report(&s, "/w").unwrap_or_default()).to_string();
    let t = Tables::build();
    if !expected.is_empty() {
        r.nontrivial.push(mix(hash_str(102, &world.to_json().to_string()) ^ seed));
    }
    match id {
        "C03" => {
            // cross-engine agreement: the in-process engine (driver mirroring main()) must produce the
            // same bytes as the real binary for the same tree and arguments
            let mut w2 = world.clone();
            w2.cwd = "/w".to_string();
            let spec = crate::run::RunSpec {
                world: w2.clone(),
                schedule: Default::default(),
                mode: crate::run::Mode::Proc { argv: argv.clone() },
                render: true,
            };
            let out = crate::run::run(&spec);
            r.count("cross_engine_comparisons", 1);
            if out.abort.is_none() {
                let inproc = out.report_bytes(&w2).unwrap_or_default();
                if inproc != text.as_bytes() {
                    let at = inproc.iter().zip(text.as_bytes().iter()).position(|(a, b)| a != b).unwrap_or(inproc.len().min(text.len()));
                    return Some((
                        "binary_and_in_process_reports_differ".into(),
                        format!(
                            "real binary (SOLSTAT_VERIF_SEED={}) and the in-process engine disagree on the report of the same tree: {} vs {} bytes, first difference at byte {} (main.rs or a file-system call outside the seam behaves differently from the library path)",
                            seed, text.len(), inproc.len(), at
                        ),
                    ));
                }
            }
            let (got, _) = triples_of_report(&text, &t);
            let want = report::triples(&expected);
            if got != want {
                let (m, e) = report::multiset_minus(&want, &got);
                let missing: Vec<_> = m.iter().take(3).collect();
                let extra: Vec<_> = e.iter().take(3).collect();
                return Some((
                    "binary_report_differs_from_union".into(),
                    format!(
                        "real binary, SOLSTAT_VERIF_SEED={}: the report lists {} entries, the union of the per-file results has {}; missing {:?}; unexpected {:?}",
                        seed, got.len(), want.len(), missing, extra
                    ),
                ));
            }
            None
        }
        _ => report::judge(&expected, &text, &t)
            .into_iter()
            .find(|f| f.prop == id)
            .map(|f| (format!("binary_{}", f.clause), format!("real binary, SOLSTAT_VERIF_SEED={}: {}", seed, f.detail))),
    }
}

fn seeds_case(bin: &str, world: &World, seeds: &[u64], r: &mut ScnResult) -> Option<(String, String)> {
    let argv = vec!["solstat".to_string(), "--path".to_string(), "/w/c".to_string()];
    let mut first: Option<Vec<u8>> = None;
    let mut span = (u64::MAX, 0u64);
    for (i, seed) in seeds.iter().enumerate() {
        // every run gets its own copy of the tree at a different location, its own simulated clock
        // and its own environment: only the directory *content* is the same
        let s = Scratch::new();
        materialise(world, &s);
        let off = clock_offset(*seed);
        span = (span.0.min(off), span.1.max(off));
        let run = run_bin(bin, &s, "/w", &argv, *seed);
        r.evaluations += 1;
        r.steps += 1;
        r.count("binary_runs", 1);
        r.fault("binary_seeded_orders", 1);
        r.interleavings.push(*seed);
        if run.status != 0 {
            r.count("binary_unjudgeable", 1);
            return None;
        }
        let rep = read_report(&s, "/w").unwrap_or_default();
        r.mixin(hash_str(103, &String::from_utf8_lossy(&rep)));
        match &first {
            None => {
                if rep.len() > 100 {
                    r.nontrivial.push(mix(hash_str(104, &world.to_json().to_string()) ^ seeds[0]));
                }
                first = Some(rep)
            }
            Some(f) => {
                if i + 1 == seeds.len() {
                    r.count("simulated_wall_clock_seconds_spanned_by_groups_total", span.1 - span.0);
                }
                if *f != rep {
                    return Some((
                        "binary_reports_differ_between_seeds".into(),
                        format!(
                            "real binary on one unchanged tree: SOLSTAT_VERIF_SEED={} and ={} (run #{}) give different reports ({} vs {} bytes)",
                            seeds[0], seed, i, f.len(), rep.len()
                        ),
                    ));
                }
            }
        }
    }
    None
}

fn inert_case(bin: &str, world: &World, seed: u64, r: &mut ScnResult) -> Option<(String, String)> {
    let argv = vec!["solstat".to_string(), "--path".to_string(), "/w/c".to_string()];
    let mut without = world.clone();
    let inert: Vec<String> = world
        .nodes
        .iter()
        .filter(|(k, n)| matches!(n, Node::File { .. }) && k.starts_with("/w/c/") && !eligible_name(base_name(k)))
        .map(|(k, _)| k.clone())
        .collect();
    for p in &inert {
        without.nodes.remove(p);
    }
    let sa = Scratch::new();
    materialise(world, &sa);
    let sb = Scratch::new();
    materialise(&without, &sb);
    let a = run_bin(bin, &sa, "/w", &argv, seed);
    let b = run_bin(bin, &sb, "/w", &argv, seed);
    r.evaluations += 2;
    r.steps += 2;
    r.count("binary_runs", 2);
    r.fault("binary_inert_files_on_disk", inert.len() as u64);
    if !inert.is_empty() {
        r.nontrivial.push(mix(hash_str(105, &world.to_json().to_string()) ^ seed));
    }
    if b.status != 0 {
        r.count("binary_unjudgeable", 1);
        return None;
    }
    if a.status != 0 {
        return Some((
            "binary_inert_file_made_run_fail".into(),
            format!("real binary: exit {} with the inert files {:?} present ({}), exit 0 without them", a.status, inert, a.stderr),
        ));
    }
    let ra = read_report(&sa, "/w").unwrap_or_default();
    let rb = read_report(&sb, "/w").unwrap_or_default();
    r.mixin(hash_str(106, &String::from_utf8_lossy(&ra)));
    if ra != rb {
        return Some((
            "binary_inert_file_changed_report".into(),
            format!("real binary: the report differs ({} vs {} bytes) when the inert files {:?} are deleted", ra.len(), rb.len(), inert),
        ));
    }
    None
}

fn effects_case(
    bin: &str,
    world: &World,
    dir: &str,
    stale: &Option<Vec<u8>>,
    seed: u64,
    r: &mut ScnResult,
) -> Option<(String, String)> {
    let cwd = world.cwd.clone();
    let report_rel = join(&cwd, "solstat_report.md");
    let argv = vec!["solstat".to_string(), "--path".to_string(), dir.to_string()];
    let s = Scratch::new();
    materialise(world, &s);
    if let Some(b) = stale {
        let _ = std::fs::write(s.real(&report_rel), b);
        r.fault("stale_report_on_disk", 1);
    }
    let before = snapshot(&s);
    let run = run_bin(bin, &s, &cwd, &argv, seed);
    let after = snapshot(&s);
    r.evaluations += 1;
    r.steps += 1;
    r.count("binary_runs", 1);
    r.nontrivial.push(mix(hash_str(107, &world.to_json().to_string()) ^ seed));
    r.mixin(hash_str(108, &format!("{}{:?}", run.status, after.get(&report_rel))));
    let mut changed: Vec<String> = vec![];
    for (k, v) in &after {
        if before.get(k) != Some(v) && *k != report_rel {
            changed.push(k.clone());
        }
    }
    for k in before.keys() {
        if !after.contains_key(k) && *k != report_rel {
            changed.push(k.clone());
        }
    }
    if !changed.is_empty() {
        return Some((
            "binary_touched_other_paths".into(),
            format!("real binary (cwd {}, --path {}, exit {}): paths besides {} differ after the run: {:?}", cwd, dir, run.status, report_rel, changed),
        ));
    }
    if run.status == 0 {
        let rep = match after.get(&report_rel) {
            Some(Some(b)) => b.clone(),
            _ => {
                return Some((
                    "binary_no_report_after_success".into(),
                    format!("real binary exited 0 but {} does not exist", report_rel),
                ))
            }
        };
        if stale.is_some() {
            let s2 = Scratch::new();
            materialise(world, &s2);
            let run2 = run_bin(bin, &s2, &cwd, &argv, seed);
            r.evaluations += 1;
            r.count("binary_runs", 1);
            let rep2 = read_report(&s2, &cwd).unwrap_or_default();
            if run2.status == 0 && rep2 != rep {
                return Some((
                    "binary_stale_report_influenced_result".into(),
                    format!(
                        "real binary (cwd {}): with a {}-byte stale solstat_report.md the new report has {} bytes, without it {} bytes",
                        cwd, stale.as_ref().unwrap().len(), rep.len(), rep2.len()
                    ),
                ));
            }
        }
    }
    None
}

/// C14 on the real binary: exit status and effects for unknown names, toml path precedence, and
/// name -> report section (exactly the section documented under that name appears).
fn config_case(ctx: &Ctx, bin: &str, case: usize, name_idx: usize, seed: u64, r: &mut ScnResult) -> Option<(String, String)> {
    let t = Tables::build();
    let mut world = World::new("/w");
    for (n, text) in crate::corpus::canary_texts() {
        world.put_file(&format!("/w/t/{}", n), text.clone().into_bytes(), Fault::None);
    }
    world.put_file("/w/p/only_p.sol", b"pragma solidity ^0.8.16;\n\ncontract P {\n    function pf() public {\n    }\n}\n".to_vec(), Fault::None);
    let mut all: Vec<(Cat, String)> = vec![];
    for c in [Cat::Opt, Cat::Vul, Cat::Qa] {
        for n in ctx.doc.of(c) {
            all.push((c, n.clone()));
        }
    }
    r.evaluations += 1;
    r.steps += 1;
    r.count("binary_runs", 1);
    match case % 5 {
        4 => {
            // a random selection across all three categories: the real binary and the in-process
            // engine must agree byte for byte (this is what sees main.rs hand a wrong list to a walker)
            let mut rng = Rng::new(seed ^ name_idx as u64);
            let mut lists: Vec<Vec<String>> = vec![];
            for c in [Cat::Opt, Cat::Vul, Cat::Qa] {
                let names: Vec<String> = ctx.doc.of(c).iter().filter(|n| by_name(c, n).is_ok()).cloned().collect();
                let mut v = match rng.below(4) {
                    0 => names.clone(),
                    1 => rng.subset(&names, 1, 2),
                    2 => rng.subset(&names, 1, 6),
                    // a category may be switched off altogether
                    _ => vec![],
                };
                rng.shuffle(&mut v);
                lists.push(v);
            }
            world.put_file(
                "/w/cfg.toml",
                crate::c18::toml_text("/w/t", &lists[0], &lists[1], &lists[2]).into_bytes(),
                Fault::None,
            );
            let argv: Vec<String> = vec!["solstat".into(), "--toml".into(), "/w/cfg.toml".into()];
            let s = Scratch::new();
            materialise(&world, &s);
            let run = run_bin(bin, &s, "/w", &argv, seed);
            r.fault("cfg_random_selection_cross_engine", 1);
            r.nontrivial.push(hash_str(115, &format!("{:?}", lists)));
            let spec = crate::run::RunSpec {
                world: world.clone(),
                schedule: Default::default(),
                mode: crate::run::Mode::Proc { argv: argv.clone() },
                render: true,
            };
            let out = crate::run::run(&spec);
            r.count("cross_engine_comparisons", 1);
            if run.status != out.status() {
                return Some((
                    "binary_and_in_process_status_differ".into(),
                    format!("configuration {:?}: the real binary exits with {}, the in-process engine with {}", lists, run.status, out.status()),
                ));
            }
            if run.status == 0 {
                let a = read_report(&s, "/w").unwrap_or_default();
                let b = out.report_bytes(&world).unwrap_or_default();
                r.mixin(hash_str(116, &String::from_utf8_lossy(&a)));
                if a != b {
                    return Some((
                        "binary_and_in_process_reports_differ".into(),
                        format!("configuration {:?}: the real binary's report ({} bytes) differs from the in-process engine's ({} bytes): main.rs does not analyse exactly the configured patterns the way the library path does", lists, a.len(), b.len()),
                    ));
                }
            }
            None
        }
        0 | 1 => {
            // a single documented name in some casing, directory from the toml's path
            if all.is_empty() {
                return None;
            }
            let (cat, name) = all[name_idx % all.len()].clone();
            if let Some(p) = report::resolve(cat, &name) {
                if !report::has_row(p) {
                    r.count("names_without_oracle_row_skipped", 1);
                    return None;
                }
            }
            let spelled = if case % 4 == 0 { name.clone() } else { name.to_uppercase() };
            let lists: Vec<Vec<String>> = [Cat::Opt, Cat::Vul, Cat::Qa]
                .iter()
                .map(|c| if *c == cat { vec![spelled.clone()] } else { vec![] })
                .collect();
            world.put_file(
                "/w/cfg.toml",
                crate::c18::toml_text("/w/t", &lists[0], &lists[1], &lists[2]).into_bytes(),
                Fault::None,
            );
            let s = Scratch::new();
            materialise(&world, &s);
            let run = run_bin(bin, &s, "/w", &["solstat".into(), "--toml".into(), "/w/cfg.toml".into()], seed);
            r.fault("cfg_single_name", 1);
            r.nontrivial.push(hash_str(109, &format!("{}|{}", cat.name(), spelled)));
            r.mixin(hash_str(110, &format!("{}{}", run.status, spelled)));
            if run.status != 0 {
                return Some((
                    "binary_documented_name_rejected".into(),
                    format!("real binary: --toml selecting only {} '{}' (path = the canary tree) exits with {}: {}", cat.name(), spelled, run.status, run.stderr),
                ));
            }
            let text = String::from_utf8_lossy(&read_report(&s, "/w").unwrap_or_default()).to_string();
            let parsed = report::parse(&text, &t);
            let want = report::resolve(cat, &name);
            if parsed.sections.is_empty() {
                // no section at all: either the canary texts hold no finding of this pattern (asked
                // of the library directly, file by file), or the selected pattern was not analysed
                let mut expected_files = vec![];
                if let Some(p) = want {
                    for (n, text) in crate::corpus::canary_texts() {
                        if let Ok(lines) = crate::pats::analyze_file(&text, 0, p) {
                            if !lines.is_empty() {
                                expected_files.push(n);
                            }
                        }
                    }
                }
                if expected_files.is_empty() {
                    r.count("canary_dead", 1);
                    return None;
                }
                return Some((
                    "binary_selected_pattern_not_reported".into(),
                    format!(
                        "real binary: --toml selecting only {} '{}' (path = the canary tree) exits with 0 and its report has no section, although the library finds this pattern in {:?} when called file by file",
                        cat.name(),
                        spelled,
                        expected_files
                    ),
                ));
            }
            let wrong: Vec<String> = parsed
                .sections
                .iter()
                .filter(|sec| sec.pat != want || want.is_none())
                .map(|sec| format!("{:?}", sec.pat))
                .collect();
            if !wrong.is_empty() || parsed.sections.len() != 1 {
                return Some((
                    "binary_name_selects_other_section".into(),
                    format!(
                        "real binary: selecting only '{}' produces {} section(s): {:?} (expected exactly the section documented for {:?})",
                        spelled,
                        parsed.sections.len(),
                        parsed.sections.iter().map(|s| format!("{:?}", s.pat)).collect::<Vec<_>>(),
                        want
                    ),
                ));
            }
            None
        }
        2 => {
            // unknown name: non-zero exit, no report, stale report untouched
            let cat = [Cat::Opt, Cat::Vul, Cat::Qa][name_idx % 3];
            let lists: Vec<Vec<String>> = [Cat::Opt, Cat::Vul, Cat::Qa]
                .iter()
                .map(|c| if *c == cat { vec!["no_such_pattern_zz9".to_string()] } else { vec![] })
                .collect();
            world.put_file(
                "/w/cfg.toml",
                crate::c18::toml_text("/w/t", &lists[0], &lists[1], &lists[2]).into_bytes(),
                Fault::None,
            );
            let stale = name_idx % 2 == 0;
            let s = Scratch::new();
            materialise(&world, &s);
            if stale {
                let _ = std::fs::write(s.real("/w/solstat_report.md"), b"STALE\n");
            }
            let run = run_bin(bin, &s, "/w", &["solstat".into(), "--toml".into(), "/w/cfg.toml".into()], seed);
            r.fault("cfg_unknown_name", 1);
            r.nontrivial.push(hash_str(111, &format!("unknown|{}|{}", cat.name(), stale)));
            r.mixin(run.status as u64);
            if run.status == 0 {
                return Some((
                    "binary_unknown_name_run_succeeded".into(),
                    format!("real binary: unknown {} name in the toml, exit status 0", cat.name()),
                ));
            }
            let rep = read_report(&s, "/w");
            let ok = if stale { rep.as_deref() == Some(b"STALE\n".as_ref()) } else { rep.is_none() };
            if !ok {
                return Some((
                    "binary_unknown_name_report_written".into(),
                    format!("real binary: unknown {} name in the toml, exit status {}, but solstat_report.md was written ({} bytes)", cat.name(), run.status, rep.map(|b| b.len()).unwrap_or(0)),
                ));
            }
            None
        }
        _ => {
            // --path overrides the toml's path; without --path the toml's path is used even though ./contracts is missing
            let with_path = name_idx % 2 == 0;
            let names: Vec<String> = ctx.doc.of(Cat::Opt).iter().filter(|n| by_name(Cat::Opt, n).is_ok()).cloned().collect();
            world.put_file("/w/cfg.toml", crate::c18::toml_text("/w/t", &names, &[], &[]).into_bytes(), Fault::None);
            let s = Scratch::new();
            materialise(&world, &s);
            let mut argv: Vec<String> = vec!["solstat".into(), "--toml".into(), "/w/cfg.toml".into()];
            if with_path {
                argv.push("--path".into());
                argv.push("/w/p".into());
            }
            let run = run_bin(bin, &s, "/w", &argv, seed);
            r.fault("cfg_path_precedence", 1);
            r.nontrivial.push(hash_str(112, &format!("precedence|{}", with_path)));
            r.mixin(run.status as u64);
            if run.status != 0 {
                return Some((
                    "binary_valid_configuration_rejected".into(),
                    format!("real binary: argv {:?} exits with {}: {}", argv, run.status, run.stderr),
                ));
            }
            let text = String::from_utf8_lossy(&read_report(&s, "/w").unwrap_or_default()).to_string();
            let from_p = text.contains("only_p.sol:");
            let from_t = text.contains("canary_");
            if (with_path && (!from_p || from_t)) || (!with_path && (from_p || !from_t)) {
                return Some((
                    "binary_wrong_directory_analysed".into(),
                    format!("real binary: argv {:?}: findings from --path dir: {}, from the toml's path: {}", argv, from_p, from_t),
                ));
            }
            None
        }
    }
}

/// C15 at process level: the entries of a file are the same whether it is analysed alone or among
/// its siblings.
fn alone_case(ctx: &Ctx, bin: &str, world: &World, seed: u64, r: &mut ScnResult) -> Option<(String, String)> {
    let t = Tables::build();
    let argv = vec![
        "solstat".to_string(),
        "--path".to_string(),
        "/w/c".to_string(),
        "--toml".to_string(),
        "/w/known.toml".to_string(),
    ];
    let s = Scratch::new();
    let mut world = world.clone();
    world.put_file("/w/known.toml", known_toml(ctx, "/w/c").into_bytes(), Fault::None);
    let world = &world;
    materialise(world, &s);
    let run = run_bin(bin, &s, "/w", &argv, seed);
    r.evaluations += 1;
    r.steps += 1;
    r.count("binary_runs", 1);
    if run.status != 0 {
        r.count("binary_unjudgeable", 1);
        return None;
    }
    let text = String::from_utf8_lossy(&read_report(&s, "/w").unwrap_or_default()).to_string();
    let (all, _) = triples_of_report(&text, &t);
    let files = crate::model::eligible_files(world, "/w/c");
    // bare names must be unique for attribution
    let mut names: Vec<&str> = files.iter().map(|f| base_name(f)).collect();
    names.sort();
    let n0 = names.len();
    names.dedup();
    if names.len() != n0 || files.len() < 2 {
        return None;
    }
    r.nontrivial.push(mix(hash_str(113, &world.to_json().to_string()) ^ seed));
    for f in files.iter().take(3) {
        let mut w1 = World::new("/w");
        let (bytes, _) = world.file(f).unwrap();
        w1.put_file(&format!("/w/c/{}", base_name(f)), bytes.clone(), Fault::None);
        w1.put_file("/w/known.toml", known_toml(ctx, "/w/c").into_bytes(), Fault::None);
        let s1 = Scratch::new();
        materialise(&w1, &s1);
        let run1 = run_bin(bin, &s1, "/w", &argv, seed ^ 1);
        r.evaluations += 1;
        r.count("binary_runs", 1);
        if run1.status != 0 {
            continue;
        }
        let text1 = String::from_utf8_lossy(&read_report(&s1, "/w").unwrap_or_default()).to_string();
        let (alone, _) = triples_of_report(&text1, &t);
        let among: Vec<_> = all.iter().filter(|x| x.1 == base_name(f)).cloned().collect();
        r.mixin(hash_str(114, &format!("{:?}", alone)));
        if alone != among {
            return Some((
                "binary_verdict_depends_on_siblings".into(),
                format!(
                    "real binary: {} analysed alone gives {} entries, among its siblings {} entries (first difference: {:?} vs {:?})",
                    f,
                    alone.len(),
                    among.len(),
                    alone.iter().find(|x| !among.contains(x)),
                    among.iter().find(|x| !alone.contains(x))
                ),
            ));
        }
    }
    None
}

/// Smaller variants of a stored simbin scenario (worlds only).
pub fn shrink(scn: &Value) -> Vec<Value> {
    let mut out = vec![];
    if let Ok(w) = World::from_json(&scn["world"]) {
        let prot = vec![w.cwd.clone(), "/w/c".to_string(), "/w".to_string()];
        for v in crate::shrink::shrink_world(&w, &prot) {
            let mut s = scn.clone();
            s["world"] = v.to_json();
            out.push(s);
        }
        for v in crate::shrink::shrink_contents(&w) {
            let mut s = scn.clone();
            s["world"] = v.to_json();
            out.push(s);
        }
    }
    if let Some(seeds) = scn["seeds"].as_array() {
        if seeds.len() > 2 {
            for i in 1..seeds.len() {
                let mut s = scn.clone();
                s["seeds"] = json!([seeds[0], seeds[i]]);
                out.push(s);
            }
        }
    }
    out
}

pub fn budget(id: &str, thorough: bool) -> u64 {
    let q = match id {
        "C03" | "C11" | "C12" => 120,
        "C13" => 60,
        "C16" => 80,
        "C18" => 120,
        "C14" => 160,
        "C15" => 40,
        _ => 0,
    };
    if thorough {
        q * 40
    } else {
        q
    }
}

#[allow(dead_code)]
fn unused(_: Pat, _: CwdPlace) {}
