//! The only source of randomness in the simulator: one splitmix64 stream per scenario, derived
//! from (VERIF_SEED, property, scenario index). Nothing here reads a clock or the OS.

pub fn mix(mut z: u64) -> u64 {
    z = z.wrapping_add(0x9E37_79B9_7F4A_7C15);
    z = (z ^ (z >> 30)).wrapping_mul(0xBF58_476D_1CE4_E5B9);
    z = (z ^ (z >> 27)).wrapping_mul(0x94D0_49BB_1331_11EB);
    z ^ (z >> 31)
}

/// Stable (process-independent) hash of bytes.
pub fn hash_bytes(seed: u64, bytes: &[u8]) -> u64 {
    let mut h = mix(seed ^ 0x2545_F491_4F6C_DD1D);
    for chunk in bytes.chunks(8) {
        let mut w = 0u64;
        for (i, b) in chunk.iter().enumerate() {
            w |= (*b as u64) << (8 * i);
        }
        h = mix(h ^ w ^ ((chunk.len() as u64) << 56));
    }
    mix(h ^ bytes.len() as u64)
}

pub fn hash_str(seed: u64, s: &str) -> u64 {
    hash_bytes(seed, s.as_bytes())
}

pub fn stream_seed(verif_seed: u64, property: &str, index: u64) -> u64 {
    mix(hash_str(verif_seed, property) ^ mix(index.wrapping_mul(0xD6E8_FEB8_6659_FD93)))
}

#[derive(Clone, Debug)]
pub struct Rng {
    state: u64,
    pub draws: u64,
}

impl Rng {
    pub fn new(seed: u64) -> Rng {
        Rng {
            state: mix(seed),
            draws: 0,
        }
    }
    pub fn next(&mut self) -> u64 {
        self.draws += 1;
        self.state = self.state.wrapping_add(0x9E37_79B9_7F4A_7C15);
        let mut z = self.state;
        z = (z ^ (z >> 30)).wrapping_mul(0xBF58_476D_1CE4_E5B9);
        z = (z ^ (z >> 27)).wrapping_mul(0x94D0_49BB_1331_11EB);
        z ^ (z >> 31)
    }
    /// uniform in 0..n (n > 0)
    pub fn below(&mut self, n: usize) -> usize {
        if n <= 1 {
            return 0;
        }
        (self.next() % n as u64) as usize
    }
    /// uniform in lo..=hi
    pub fn range(&mut self, lo: usize, hi: usize) -> usize {
        lo + self.below(hi - lo + 1)
    }
    pub fn chance(&mut self, num: u32, den: u32) -> bool {
        (self.next() % den as u64) < num as u64
    }
    pub fn pick<'a, T>(&mut self, xs: &'a [T]) -> &'a T {
        &xs[self.below(xs.len())]
    }
    pub fn shuffle<T>(&mut self, xs: &mut [T]) {
        for i in (1..xs.len()).rev() {
            let j = self.below(i + 1);
            xs.swap(i, j);
        }
    }
    /// a random subset keeping the original order
    pub fn subset<T: Clone>(&mut self, xs: &[T], num: u32, den: u32) -> Vec<T> {
        xs.iter()
            .filter(|_| self.chance(num, den))
            .cloned()
            .collect()
    }
    pub fn fork(&mut self) -> Rng {
        Rng::new(self.next())
    }
}
