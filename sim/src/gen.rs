//! Swarm-style generators: every scenario draws its own knobs (tree shape, names, inert mix,
//! listing mode, iteration mode, pattern subset and order, cwd placement, stale report).

use crate::corpus::{stuffed_text, Screen, PRAGMAS};
use crate::pats::{defaults, Cat, Pat, CATS};
use crate::rng::Rng;
use crate::simenv::{OrderPolicy, Schedule};
use crate::world::{join, parent_of, Fault, World};

pub const ELIGIBLE_NAMES: &[&str] = &[
    "a.sol",
    "b.sol",
    "c.sol",
    "Token.sol",
    "Vault.sol",
    "my token.sol",
    "x:1.sol",
    "\u{fc}n\u{ef}.sol",
    "A.b.sol",
    ".sol",
    "lib.v2.sol",
    "Test.sol",
    "t.sol",
    "-dash.sol",
    "Pool2.sol",
    "Pool10.sol",
    "Pool10Mock.sol",
    "2.sol",
    "10.sol",
    "10_fixed.sol",
];

/// (name, class) of entries the property calls inert.
pub const INERT_NAMES: &[(&str, &str)] = &[
    ("A.SOL", "upper_ext"),
    ("x.Sol", "mixed_ext"),
    ("x.sol.bak", "sol_inside"),
    ("x.sol~", "sol_inside"),
    ("x.solx", "sol_inside"),
    ("x.sol.md", "sol_inside"),
    ("sol", "no_dot"),
    ("xsol", "no_dot"),
    ("a.t.sol", "foundry_test"),
    ("Token.t.sol", "foundry_test"),
    (".t.sol", "foundry_test"),
    ("A.T.sol", "foundry_test_case"),
    ("a.T.SOL", "foundry_test_case"),
    ("b.t.Sol", "foundry_test_case"),
    ("README", "other"),
    ("foo.txt", "other"),
    ("Solstat.toml", "other"),
    ("notes .txt", "other"),
    (".hidden", "other"),
    ("\u{fc}n\u{ef}.txt", "other"),
    ("solstat_report.md", "report_name"),
    ("na\u{ef}ve.md", "multibyte"),
    ("\u{8a2d}\u{8a08}.txt", "multibyte"),
    ("\u{e9}a.t.sol", "multibyte"),
    ("\u{1f600}.sol.bak", "multibyte"),
    ("x\u{301}y.SOL", "multibyte"),
];

pub const NAME_ALPHABET: &[char] = &[
    'a', 'b', 'c', 'x', 'y', 'z', 'A', 'B', 'T', 'S', '0', '1', '9', ' ', '-', '_', '.', ':', '#',
    '(', ')', '~', '&', '<', '>', '*', '|', '`', '[', ']', '"', '\\', '\u{e9}', '\u{ef}', '\u{fc}', '\u{df}', '\u{416}', '\u{8a2d}', '\u{8a08}',
    '\u{66f8}', '\u{1f600}', '\u{301}',
];

pub const INERT_EXTS: &[&str] = &[
    ".md", ".txt", "", ".SOL", ".Sol", ".t.sol", ".T.sol", ".t.SOL", ".sol.bak", ".json", ".solx",
    ".sol ", ".t.sol.md",
];

pub fn random_stem(rng: &mut Rng) -> String {
    let n = rng.range(0, 8);
    (0..n).map(|_| *rng.pick(NAME_ALPHABET)).collect()
}

/// An eligible file name: from the fixed pool or a random valid-Unicode stem + ".sol". Never
/// contains ".t.sol" (any case) anywhere.
pub fn gen_eligible_name(rng: &mut Rng) -> String {
    if rng.chance(1, 2) {
        return rng.pick(ELIGIBLE_NAMES).to_string();
    }
    for _ in 0..10 {
        let n = format!("{}.sol", random_stem(rng));
        if crate::model::eligible_name(&n) && !n.to_lowercase().contains(".t.sol") {
            return n;
        }
    }
    "r.sol".to_string()
}

/// An inert file name: from the fixed pool or a random stem + a non-eligible extension.
pub fn gen_inert_name(rng: &mut Rng) -> (String, &'static str) {
    if rng.chance(1, 2) {
        let (n, c) = *rng.pick(INERT_NAMES);
        return (n.to_string(), c);
    }
    for _ in 0..10 {
        let n = format!("{}{}", random_stem(rng), rng.pick(INERT_EXTS));
        let lower = n.to_lowercase();
        let mid_t_sol = lower.contains(".t.sol") && lower.ends_with(".sol") && !lower.ends_with(".t.sol");
        if !n.is_empty() && n != "." && n != ".." && !crate::model::eligible_name(&n) && !mid_t_sol {
            return (n, "random_unicode");
        }
    }
    ("r.txt".to_string(), "random_unicode")
}

pub fn gen_dir_name(rng: &mut Rng) -> String {
    if rng.chance(2, 3) {
        return rng.pick(DIR_NAMES).to_string();
    }
    for _ in 0..10 {
        let n = format!("{}{}", random_stem(rng), rng.pick(&["", "", ".sol", ".t.sol", ".d"]));
        if !n.is_empty() && n != "." && n != ".." {
            return n;
        }
    }
    "d".to_string()
}

/// The analysed root: usually /w/c, sometimes below (or itself) a directory with a name that
/// tools like to treat specially.
pub fn gen_root(rng: &mut Rng) -> &'static str {
    if rng.chance(3, 4) {
        return "/w/c";
    }
    *rng.pick(&["/w/lib/c", "/w/.cache/c", "/w/node_modules/pkg", "/w/test/c", "/w/c.sol", "/w/Mocks/c", "/w/.c", "/w/out/stdlib"])
}

pub const DIR_NAMES: &[&str] = &[
    "sub", "lib", "deep", "a b", "lib.sol", "test.t.sol", "z", "0", "\u{e9}t\u{e9}", ".git", ".hidden",
    "node_modules", "test", "tests", "mocks", "Mocks", "out", "cache", "Contracts", "contracts", "SRC", "src", "Lib", "LIB",
    // near misses of names that tools like to treat specially
    "stdlib", "mathlib", "libs", "lib2", "_lib", "old_node_modules", "node_modules2", "mytest", "testing", ".github", "..x", "script", "vendor", "build",
];

#[derive(Clone, Copy, Debug, PartialEq, Eq, Hash, PartialOrd, Ord)]
pub enum InertFill {
    Empty,
    Binary,
    Unparseable,
    Stuffed,
    Eio,
    Eacces,
}

pub const INERT_FILLS: [InertFill; 6] = [
    InertFill::Empty,
    InertFill::Binary,
    InertFill::Unparseable,
    InertFill::Stuffed,
    InertFill::Eio,
    InertFill::Eacces,
];

impl InertFill {
    pub fn name(&self) -> &'static str {
        match self {
            InertFill::Empty => "empty",
            InertFill::Binary => "binary_invalid_utf8",
            InertFill::Unparseable => "unparseable_text",
            InertFill::Stuffed => "valid_solidity_full_of_findings",
            InertFill::Eio => "read_EIO",
            InertFill::Eacces => "read_EACCES",
        }
    }
    pub fn poisoned(&self) -> bool {
        matches!(self, InertFill::Eio | InertFill::Eacces)
    }
}

pub fn inert_content(fill: InertFill, rng: &mut Rng) -> (Vec<u8>, Fault) {
    match fill {
        InertFill::Empty => (vec![], Fault::None),
        InertFill::Binary => {
            let n = rng.range(1, 64);
            let mut b: Vec<u8> = (0..n).map(|_| rng.next() as u8).collect();
            b.push(0xff);
            b.push(0xfe);
            b.push(0x00);
            b.push(0xc3); // truncated multi-byte sequence
            (b, Fault::None)
        }
        InertFill::Unparseable => (
            b"pragma solidity 0.8.16;\ncontract { this is not ) solidity ((( \n".to_vec(),
            Fault::None,
        ),
        InertFill::Stuffed => (
            stuffed_text(rng.below(PRAGMAS.len())).into_bytes(),
            Fault::None,
        ),
        InertFill::Eio => (
            stuffed_text(rng.below(PRAGMAS.len())).into_bytes(),
            Fault::Eio,
        ),
        InertFill::Eacces => (
            stuffed_text(rng.below(PRAGMAS.len())).into_bytes(),
            Fault::Eacces,
        ),
    }
}

#[derive(Clone, Debug, Default)]
pub struct TreeKnobs {
    /// allow the rare shapes: a directory with more than 256 entries, a chain 8-24 levels deep, a
    /// very large eligible file
    pub rare_shapes: bool,
    pub max_dirs: usize,
    pub max_depth: usize,
    pub max_files_per_dir: usize,
    /// inert fraction in percent
    pub inert_pct: u32,
    pub min_eligible: usize,
    /// some eligible files hold nothing but white space (a placeholder left by `touch`/`echo >`).
    /// Off unless the caller also restricts its patterns with `keep_blank_tolerant`: on the pinned
    /// tree the version-dependent detectors abort on a file without a pragma.
    pub blank_files: bool,
}

pub const BLANK_TEXTS: &[&str] = &["\n", "\n\n\n", "  \n\t\n \n\n\n\n\n", " ", "", "\r\n\r\n"];

/// Patterns whose detector returns (rather than aborts) on a file that holds only white space;
/// asked of the code under test once, as a filter on the workload.
pub fn blank_tolerant(p: Pat) -> bool {
    static T: std::sync::OnceLock<std::collections::HashSet<String>> = std::sync::OnceLock::new();
    T.get_or_init(|| {
        let mut ok = std::collections::HashSet::new();
        for c in CATS {
            for p in defaults(c) {
                if BLANK_TEXTS.iter().all(|t| crate::pats::analyze_file(t, 0, p).is_ok()) {
                    ok.insert(p.label());
                }
            }
        }
        ok
    })
    .contains(&p.label())
}

pub fn is_blank(bytes: &[u8]) -> bool {
    bytes.iter().all(|b| b.is_ascii_whitespace())
}

/// If an eligible file of the world is blank, keep only the patterns that tolerate such a file.
pub fn keep_blank_tolerant(world: &World, pats: &mut Vec<Pat>) {
    let any_blank = world.files().iter().any(|f| {
        crate::model::eligible_name(crate::world::base_name(f)) && world.file(f).map_or(false, |(b, _)| is_blank(b))
    });
    if any_blank {
        pats.retain(|p| blank_tolerant(*p));
    }
}

impl TreeKnobs {
    pub fn draw(rng: &mut Rng) -> TreeKnobs {
        TreeKnobs {
            rare_shapes: true,
            max_dirs: rng.range(0, 5),
            max_depth: rng.range(0, 4),
            max_files_per_dir: rng.range(1, 4),
            inert_pct: *rng.pick(&[0, 0, 20, 40, 60]),
            min_eligible: 0,
            blank_files: false,
        }
    }
}

#[derive(Clone, Debug)]
pub struct InertInfo {
    pub path: String,
    pub class: &'static str,
    pub fill: InertFill,
}

#[derive(Clone, Debug, Default)]
pub struct TreeInfo {
    pub root: String,
    pub dirs: Vec<String>,
    pub eligible: Vec<String>,
    pub inert: Vec<InertInfo>,
}

/// Populate `root` inside `world`. Returns what was put there.
pub fn gen_tree(
    rng: &mut Rng,
    screen: &mut Screen,
    world: &mut World,
    root: &str,
    k: &TreeKnobs,
) -> TreeInfo {
    world.mkdir_p(root);
    let mut info = TreeInfo {
        root: root.to_string(),
        ..Default::default()
    };
    let mut dirs: Vec<(String, usize)> = vec![(root.to_string(), 0)];
    let n_dirs = if k.max_dirs == 0 { 0 } else { rng.range(0, k.max_dirs) };
    for _ in 0..n_dirs {
        let (parent, depth) = dirs[rng.below(dirs.len())].clone();
        if depth >= k.max_depth {
            continue;
        }
        let name = gen_dir_name(rng);
        let p = join(&parent, &name);
        if world.nodes.contains_key(&p) {
            continue;
        }
        world.mkdir_p(&p);
        dirs.push((p.clone(), depth + 1));
        info.dirs.push(p);
    }
    for (d, _) in &dirs {
        let n_files = rng.range(0, k.max_files_per_dir);
        for _ in 0..n_files {
            if rng.chance(k.inert_pct, 100) {
                let (name, class) = gen_inert_name(rng);
                let p = join(d, &name);
                if world.nodes.contains_key(&p) {
                    continue;
                }
                let fill = *rng.pick(&INERT_FILLS);
                let (bytes, fault) = inert_content(fill, rng);
                world.put_file(&p, bytes, fault);
                info.inert.push(InertInfo {
                    path: p,
                    class,
                    fill,
                });
            } else {
                // prefer re-using a name that already exists elsewhere (findings are keyed by the
                // bare file name)
                let name = if !info.eligible.is_empty() && rng.chance(1, 4) {
                    let other = rng.pick(&info.eligible).clone();
                    crate::world::base_name(&other).to_string()
                } else {
                    gen_eligible_name(rng)
                };
                let p = join(d, &name);
                if world.nodes.contains_key(&p) {
                    continue;
                }
                let mut text = screen.gen_text(rng);
                if k.blank_files && rng.chance(1, 3) {
                    text = rng.pick(BLANK_TEXTS).to_string();
                }
                // sometimes a different text of exactly the same byte length as an existing file
                if !info.eligible.is_empty() && rng.chance(1, 6) {
                    let other = rng.pick(&info.eligible).clone();
                    if let Some((ob, _)) = world.file(&other) {
                        let target = ob.len();
                        for _ in 0..6 {
                            if text.len() + 3 <= target && text.as_bytes() != ob.as_slice() {
                                let padded = format!("{}//{}\n", text, "x".repeat(target - text.len() - 3));
                                if screen.ok(&padded) {
                                    text = padded;
                                }
                                break;
                            }
                            text = screen.gen_text(rng);
                        }
                    }
                }
                world.put_file(&p, text.into_bytes(), Fault::None);
                info.eligible.push(p);
                // sometimes a sibling whose name differs only in letter case (a different file on a
                // case-sensitive file system)
                if rng.chance(1, 10) {
                    let stem_len = name.len().saturating_sub(4);
                    let swapped: String = name
                        .chars()
                        .enumerate()
                        .map(|(i, c)| {
                            if i < stem_len && c.is_ascii_lowercase() {
                                c.to_ascii_uppercase()
                            } else if i < stem_len && c.is_ascii_uppercase() {
                                c.to_ascii_lowercase()
                            } else {
                                c
                            }
                        })
                        .collect();
                    let q = join(d, &swapped);
                    if swapped != name
                        && crate::model::eligible_name(&swapped)
                        && !swapped.to_lowercase().contains(".t.sol")
                        && !world.nodes.contains_key(&q)
                    {
                        world.put_file(&q, screen.gen_text(rng).into_bytes(), Fault::None);
                        info.eligible.push(q);
                    }
                }
            }
        }
    }
    if k.rare_shapes {
        match rng.below(160) {
            0 => {
                let n = rng.range(257, 300);
                // usually small files; sometimes files stuffed with findings, so that the report of
                // such a tree is several hundred kilobytes long
                let texts: Vec<String> = if rng.chance(1, 5) {
                    vec![crate::corpus::stuffed_text(rng.below(crate::corpus::PRAGMAS.len()))]
                } else {
                    (0..3).map(|_| screen.gen_text(rng)).collect()
                };
                let dir = if rng.chance(1, 2) { root.to_string() } else { join(root, "wide") };
                for i in 0..n {
                    let p = join(&dir, &format!("f{:03}.sol", i));
                    if !world.nodes.contains_key(&p) {
                        world.put_file(&p, texts[i % texts.len()].clone().into_bytes(), Fault::None);
                        info.eligible.push(p);
                    }
                }
            }
            1 => {
                let mut d = root.to_string();
                for i in 0..(if rng.chance(1, 4) { rng.range(60, 90) } else { rng.range(8, 24) }) {
                    d = join(&d, &format!("n{}", i));
                    if rng.chance(1, 3) {
                        let p = join(&d, &format!("deep{}.sol", i));
                        world.put_file(&p, screen.gen_text(rng).into_bytes(), Fault::None);
                        info.eligible.push(p);
                    }
                }
                let p = join(&d, "bottom.sol");
                world.put_file(&p, screen.gen_text(rng).into_bytes(), Fault::None);
                info.eligible.push(p);
            }
            6 | 7 => {
                // one file with several hundred matches of the same patterns
                let t = crate::corpus::many_matches_text(rng.range(800, 1200));
                let p = join(root, "many.sol");
                if !world.nodes.contains_key(&p) && screen.ok(&t) {
                    world.put_file(&p, t.into_bytes(), Fault::None);
                    info.eligible.push(p);
                }
            }
            4 | 5 => {
                // a very tall file: findings beyond line 65 536
                let t = screen.gen_text(rng);
                if let Some(pos) = t.find('\n') {
                    let tall = format!("{}{}{}", &t[..pos + 1], "\n".repeat(rng.range(65_600, 70_000)), &t[pos + 1..]);
                    let p = join(root, "tall.sol");
                    if !world.nodes.contains_key(&p) && screen.ok(&tall) {
                        world.put_file(&p, tall.into_bytes(), Fault::None);
                        info.eligible.push(p);
                    }
                }
            }
            2 | 3 => {
                // a large eligible file (0.3 - 1.5 MB): comment padding around real findings
                let mut t = screen.gen_text(rng);
                let pad = "// padding padding padding padding padding padding padding padding padding\n";
                let reps = rng.range(4_000, 20_000);
                t.push_str(&pad.repeat(reps));
                let p = join(root, "big.sol");
                if !world.nodes.contains_key(&p) && screen.ok(&t) {
                    world.put_file(&p, t.into_bytes(), Fault::None);
                    info.eligible.push(p);
                }
            }
            _ => {}
        }
    }
    // top up to the minimum number of eligible files
    let mut guard = 0;
    while info.eligible.len() < k.min_eligible && guard < 50 {
        guard += 1;
        let (d, _) = dirs[rng.below(dirs.len())].clone();
        let name = gen_eligible_name(rng);
        let p = join(&d, &name);
        if world.nodes.contains_key(&p) {
            continue;
        }
        let text = screen.gen_text(rng);
        world.put_file(&p, text.into_bytes(), Fault::None);
        info.eligible.push(p);
    }
    info
}

pub const LISTING_MODES: [&str; 7] = [
    "random_stable",
    "fresh_per_call",
    "sorted",
    "reversed",
    "dirs_first",
    "dirs_last",
    "dir_right_after_sibling_file",
];

pub fn gen_listing(rng: &mut Rng, world: &World, mode: usize) -> OrderPolicy {
    let mut pol = OrderPolicy::default();
    let paths: Vec<String> = world.nodes.keys().cloned().collect();
    match mode % 7 {
        0 | 1 => {
            for p in &paths {
                pol.ranks.insert(p.clone(), rng.next() >> 1);
            }
            if mode % 7 == 1 {
                pol.salts = (0..rng.range(2, 5)).map(|_| rng.next() | 1).collect();
            }
        }
        2 => {
            for (i, p) in paths.iter().enumerate() {
                pol.ranks.insert(p.clone(), i as u64);
            }
        }
        3 => {
            let n = paths.len() as u64;
            for (i, p) in paths.iter().enumerate() {
                pol.ranks.insert(p.clone(), n - i as u64);
            }
        }
        4 | 5 => {
            for p in &paths {
                let d = world.is_dir(p);
                let hi = if (mode % 7 == 4) == d { 0u64 } else { 1u64 };
                pol.ranks.insert(p.clone(), (hi << 40) | (rng.next() >> 30));
            }
        }
        _ => {
            // files spaced out; every directory lands right after a random sibling file
            for p in &paths {
                if !world.is_dir(p) {
                    pol.ranks.insert(p.clone(), (rng.next() >> 24) << 8);
                }
            }
            for p in &paths {
                if world.is_dir(p) {
                    let parent = parent_of(p);
                    let sibs: Vec<String> = world
                        .children(&parent)
                        .into_iter()
                        .map(|n| join(&parent, &n))
                        .filter(|s| world.is_file(s))
                        .collect();
                    let r = if sibs.is_empty() {
                        rng.next() >> 16
                    } else {
                        pol.ranks[rng.pick(&sibs)] + 1 + rng.below(4) as u64
                    };
                    pol.ranks.insert(p.clone(), r);
                }
            }
        }
    }
    pol
}

pub const ITER_MODES: [&str; 4] = ["identity", "reversed", "random_stable", "fresh_per_call"];

pub fn all_pattern_keys() -> Vec<String> {
    let mut v = vec![];
    for c in CATS {
        for p in defaults(c) {
            v.push(p.debug_key());
        }
    }
    v.sort();
    v.dedup();
    v
}

pub fn gen_iteration(rng: &mut Rng, mode: usize) -> OrderPolicy {
    let keys = all_pattern_keys();
    let mut pol = OrderPolicy::default();
    let n = keys.len() as u64;
    for (i, k) in keys.iter().enumerate() {
        let r = match mode % 4 {
            0 => i as u64,
            1 => n - i as u64,
            _ => rng.next() >> 1,
        };
        pol.ranks.insert(k.clone(), r);
    }
    if mode % 4 == 3 {
        pol.salts = (0..rng.range(2, 4)).map(|_| rng.next() | 1).collect();
    }
    pol
}

pub fn gen_schedule(rng: &mut Rng, world: &World) -> (Schedule, usize, usize) {
    let lm = rng.below(7);
    let im = rng.below(4);
    (
        Schedule {
            listing: gen_listing(rng, world, lm),
            iteration: gen_iteration(rng, im),
        },
        lm,
        im,
    )
}

/// A seeded subset (possibly empty, possibly everything) of the category's default patterns in a
/// seeded order.
pub fn gen_pats(rng: &mut Rng, cat: Cat) -> Vec<Pat> {
    let all: Vec<Pat> = defaults(cat)
        .into_iter()
        .filter(|p| crate::report::has_row(*p))
        .collect();
    let mut v = match rng.below(4) {
        0 => all.clone(),
        1 => rng.subset(&all, 1, 3),
        2 => rng.subset(&all, 2, 3),
        _ => {
            let mut v = rng.subset(&all, 1, 6);
            if v.is_empty() && !all.is_empty() {
                v.push(*rng.pick(&all));
            }
            v
        }
    };
    if rng.chance(1, 2) {
        rng.shuffle(&mut v);
    }
    v
}

#[derive(Clone, Copy, Debug, PartialEq, Eq, Hash)]
pub enum CwdPlace {
    Unrelated,
    Parent,
    Equal,
    Child,
}

pub const CWD_PLACES: [CwdPlace; 4] = [
    CwdPlace::Unrelated,
    CwdPlace::Parent,
    CwdPlace::Equal,
    CwdPlace::Child,
];

impl CwdPlace {
    pub fn name(&self) -> &'static str {
        match self {
            CwdPlace::Unrelated => "cwd_unrelated",
            CwdPlace::Parent => "cwd_parent_of_analysed",
            CwdPlace::Equal => "cwd_equals_analysed",
            CwdPlace::Child => "cwd_child_of_analysed",
        }
    }
}

/// Choose a cwd relative to the analysed directory `/w/c` and a spelling of that directory as the
/// program will receive it.
pub fn place_cwd(rng: &mut Rng, world: &mut World, analysed: &str, place: CwdPlace) -> String {
    let cwd = match place {
        CwdPlace::Unrelated => "/home/u".to_string(),
        CwdPlace::Parent => parent_of(analysed),
        CwdPlace::Equal => analysed.to_string(),
        CwdPlace::Child => {
            // an existing sub-directory if there is one, else a fresh empty one
            let kids: Vec<String> = world
                .children(analysed)
                .into_iter()
                .map(|n| join(analysed, &n))
                .filter(|p| world.is_dir(p))
                .collect();
            if kids.is_empty() {
                let p = join(analysed, "wd");
                world.mkdir_p(&p);
                p
            } else {
                rng.pick(&kids).clone()
            }
        }
    };
    world.mkdir_p(&cwd);
    world.cwd = cwd.clone();
    // spelling of the analysed dir
    let rel = match place {
        CwdPlace::Unrelated => None,
        CwdPlace::Parent => Some(format!("./{}", crate::world::base_name(analysed))),
        CwdPlace::Equal => Some(".".to_string()),
        CwdPlace::Child => Some("..".to_string()),
    };
    let mut spelled = match rel {
        Some(r) if rng.chance(2, 3) => r,
        _ => analysed.to_string(),
    };
    // a trailing separator is a common way to spell a directory; so are redundant components
    match rng.below(10) {
        0 | 1 => spelled.push('/'),
        2 => spelled = format!("{}/.", spelled),
        3 => {
            let base = crate::world::base_name(analysed).to_string();
            spelled = format!("{}/../{}", spelled, base);
        }
        _ => {}
    }
    spelled
}
