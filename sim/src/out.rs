//! solstat prints to stdout on some paths (the `colour` macros in `Opts::new`). The simulator runs
//! solstat in-process thousands of times, so the process's fd 1 is pointed at /dev/null and the
//! simulator's own output goes to a duplicate of the original stdout.

use std::fs::File;
use std::io::Write;
use std::os::unix::io::FromRawFd;
use std::sync::Mutex;

extern "C" {
    fn dup(fd: i32) -> i32;
    fn dup2(from: i32, to: i32) -> i32;
    fn open(path: *const u8, flags: i32, ...) -> i32;
}

static OUT: Mutex<Option<File>> = Mutex::new(None);

pub fn init() {
    unsafe {
        let saved = dup(1);
        if saved < 0 {
            return;
        }
        let null = open(b"/dev/null\0".as_ptr(), 1 /* O_WRONLY */);
        if null >= 0 {
            dup2(null, 1);
        }
        *OUT.lock().unwrap() = Some(File::from_raw_fd(saved));
    }
}

pub fn emit(s: &str) {
    let mut g = match OUT.lock() {
        Ok(g) => g,
        Err(p) => p.into_inner(),
    };
    match g.as_mut() {
        Some(f) => {
            let _ = f.write_all(s.as_bytes());
            let _ = f.write_all(b"\n");
            let _ = f.flush();
        }
        None => {
            // not initialised (should not happen): fall back to stderr
            eprintln!("{}", s);
        }
    }
}

#[macro_export]
macro_rules! say {
    ($($arg:tt)*) => {
        $crate::out::emit(&format!($($arg)*))
    };
}
