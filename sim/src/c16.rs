//! C16 -- only Solidity sources are analysed; everything else is inert. Differential oracle:
//! the same walk over the same tree with every inert file deleted (relative listing order of the
//! rest preserved, because listing ranks are keyed by path) must give the same result, and the
//! presence of inert files must never make the run fail. Every inert file carries a fault:
//! binary bytes, unparseable text, valid Solidity stuffed with findings, or a read that fails.

use crate::c03;
use crate::corpus::Screen;
use crate::framework::{Ctx, Property, ScnResult, Tier, Violation};
use crate::gen::{self, inert_content, InertFill, TreeKnobs, INERT_FILLS, INERT_NAMES};
use crate::model::{eligible_name, multiset_diff, show_entries};
use crate::pats::{defaults, sorted, Cat};
use crate::rng::{hash_str, mix, Rng};
use crate::run::{run, Mode, RunSpec};
use crate::simenv::{journal_hash, Ev};
use crate::world::{base_name, join, Fault, Node, World};
use serde_json::{json, Value};

pub struct C16;

fn inert_paths(world: &World, root: &str) -> Vec<String> {
    let prefix = format!("{}/", root);
    world
        .nodes
        .iter()
        .filter(|(k, n)| {
            k.starts_with(&prefix)
                && matches!(n, Node::File { .. })
                && !eligible_name(base_name(k))
        })
        .map(|(k, _)| k.clone())
        .collect()
}

pub struct Judged {
    pub violation: Option<(String, String)>,
    pub steps: u64,
    pub poison_present: u64,
    pub poison_read: u64,
    pub inert_read: u64,
    pub inert_present: u64,
    pub consequential: bool,
    pub eligible_with_findings: bool,
    pub trace: u64,
    pub decisions: u64,
    pub sample: Value,
}

pub fn judge(spec: &RunSpec) -> Judged {
    let dir = match &spec.mode {
        Mode::Lib { dir, .. } => dir.clone(),
        _ => ".".into(),
    };
    let root = spec.world.resolve(std::path::Path::new(&dir));
    let inert = inert_paths(&spec.world, &root);
    let mut without = spec.clone();
    for p in &inert {
        without.world.nodes.remove(p);
    }
    let a = run(spec);
    let b = run(&without);
    let mut j = Judged {
        violation: None,
        steps: (a.journal.len() + b.journal.len()) as u64 + 6,
        poison_present: 0,
        poison_read: 0,
        inert_read: 0,
        inert_present: inert.len() as u64,
        consequential: false,
        eligible_with_findings: !b.maps.flat().is_empty(),
        trace: mix(journal_hash(&a.journal) ^ journal_hash(&b.journal).rotate_left(7)),
        decisions: c03::decision_hash(&a),
        sample: spec.sample(&a),
    };
    for p in &inert {
        if let Some((bytes, fault)) = spec.world.file(p) {
            if fault != Fault::None {
                j.poison_present += 1;
            }
            if fault != Fault::None || !bytes.is_empty() {
                j.consequential = true;
            }
        }
    }
    for e in &a.journal {
        if let Ev::Read { path, outcome } = e {
            if inert.contains(path) {
                j.inert_read += 1;
                if outcome == "EIO" || outcome == "EACCES" {
                    j.poison_read += 1;
                }
            }
        }
    }
    j.trace = mix(j.trace ^ hash_str(61, &format!("{:?}{:?}{}{}", a.maps.flat(), b.maps.flat(), a.status(), b.status())));

    if b.abort.is_some() {
        // the tree without inert files does not complete either: nothing to compare (C03/C04 territory)
        return j;
    }
    if let Some(ab) = &a.abort {
        j.violation = Some((
            "inert_file_made_run_fail".into(),
            format!(
                "the walk of {} aborts ({:?}) with the inert files [{}] present, and completes with them deleted",
                root,
                ab,
                inert.iter().map(|p| describe(&spec.world, p)).collect::<Vec<_>>().join(", ")
            ),
        ));
        return j;
    }
    if spec.render {
        let ra = a.report_bytes(&spec.world);
        let rb = b.report_bytes(&without.world);
        if ra != rb {
            j.violation = Some((
                "inert_file_changed_report".into(),
                format!(
                    "the report of walking {} differs ({:?} vs {:?} bytes) when the inert files [{}] are deleted",
                    root,
                    ra.as_ref().map(|b| b.len()),
                    rb.as_ref().map(|b| b.len()),
                    inert.iter().map(|p| describe(&spec.world, p)).collect::<Vec<_>>().join(", ")
                ),
            ));
            return j;
        }
    }
    let fa = sorted(a.maps.flat());
    let fb = sorted(b.maps.flat());
    if fa != fb {
        let (missing, extra) = multiset_diff(&fb, &fa);
        j.violation = Some((
            "inert_file_changed_result".into(),
            format!(
                "the result of walking {} differs from the result with the inert files [{}] deleted: {} vs {} entries; only without them: {}; only with them: {}",
                root,
                inert.iter().map(|p| describe(&spec.world, p)).collect::<Vec<_>>().join(", "),
                fa.len(),
                fb.len(),
                show_entries(&missing, 3),
                show_entries(&extra, 3)
            ),
        ));
        return j;
    }
    // first sentence of the property: exactly the eligible files are analysed (independent walk)
    let c = c03::judge(&without, &b);
    if let Some(v) = c.violation {
        j.violation = Some((format!("eligible_set_{}", v.clause), v.detail));
    }
    j
}

fn describe(w: &World, p: &str) -> String {
    match w.file(p) {
        Some((b, f)) if f != Fault::None => format!("{} (read->{})", p, f.name()),
        Some((b, _)) => format!("{} ({} bytes)", p, b.len()),
        None => p.to_string(),
    }
}

fn gen_spec(rng: &mut Rng, screen: &mut Screen) -> RunSpec {
    let mut world = World::new("/w");
    let mut k = TreeKnobs::draw(rng);
    k.inert_pct = *rng.pick(&[30, 50, 70]);
    k.min_eligible = rng.range(1, 3);
    k.max_files_per_dir = k.max_files_per_dir.max(2);
    k.blank_files = rng.chance(1, 10);
    let root = gen::gen_root(rng);
    gen::gen_tree(rng, screen, &mut world, root, &k);
    // now and then a directory holds dozens of inert entries (build artefacts, test files) around
    // its few sources: whatever reads a listing in batches or gives up after a run of ignorable
    // entries shows here
    if rng.chance(1, 10) {
        let mut dirs: Vec<String> = world.dirs().into_iter().filter(|d| *d == root || d.starts_with(&format!("{}/", root))).collect();
        if dirs.is_empty() {
            dirs.push(root.to_string());
        }
        let d = rng.pick(&dirs).clone();
        let n = rng.range(33, 90);
        for i in 0..n {
            let name = match rng.below(5) {
                0 => format!("artifact{}.json", i),
                1 => format!("Case{}.t.sol", i),
                2 => format!("note{:03}.txt", i),
                3 => format!("{}.sol.bak", i),
                _ => format!("zz{}.T.sol", i),
            };
            let p = crate::world::join(&d, &name);
            if !world.nodes.contains_key(&p) {
                world.put_file(&p, if i % 3 == 0 { vec![0xff, 0xfe, 0x00] } else { b"{}\n".to_vec() }, Fault::None);
            }
        }
    }
    // the inert file may even carry the report's own name, in the analysed directory itself
    if rng.chance(1, 4) {
        let fill = *rng.pick(&INERT_FILLS);
        let (bytes, fault) = inert_content(fill, rng);
        world.put_file(&format!("{}/solstat_report.md", root), bytes, fault);
    }
    let place = *rng.pick(&[gen::CwdPlace::Parent, gen::CwdPlace::Parent, gen::CwdPlace::Equal, gen::CwdPlace::Child, gen::CwdPlace::Unrelated]);
    let dir = gen::place_cwd(rng, &mut world, root, place);
    let (schedule, _, _) = gen::gen_schedule(rng, &world);
    let (mut vul, mut opt, mut qa) = (gen::gen_pats(rng, Cat::Vul), gen::gen_pats(rng, Cat::Opt), gen::gen_pats(rng, Cat::Qa));
    for l in [&mut vul, &mut opt, &mut qa] {
        gen::keep_blank_tolerant(&world, l);
    }
    RunSpec {
        world,
        schedule,
        mode: Mode::Lib { dir, vul, opt, qa },
        render: rng.chance(1, 2),
    }
}

/// The complete cross product of inert name x inert content, at two depths.
fn enumerate(screen: &mut Screen) -> ScnResult {
    let mut r = ScnResult::default();
    let mut rng = Rng::new(0xC16);
    let base_a = screen.gen_text(&mut rng);
    let base_b = screen.gen_text(&mut rng);
    for (name, class) in INERT_NAMES {
        if eligible_name(name) {
            r.harness_error = Some(format!("inert pool contains an eligible name {:?}", name));
            return r;
        }
        for fill in INERT_FILLS {
            for depth in 0..2 {
                let mut world = World::new("/w");
                world.put_file("/w/c/a.sol", base_a.clone().into_bytes(), Fault::None);
                world.put_file("/w/c/sub/b.sol", base_b.clone().into_bytes(), Fault::None);
                let dir = if depth == 0 { "/w/c" } else { "/w/c/sub" };
                let (bytes, fault) = inert_content(fill, &mut rng);
                world.put_file(&join(dir, name), bytes, fault);
                let (schedule, _, _) = gen::gen_schedule(&mut rng, &world);
                let spec = RunSpec {
                    world,
                    schedule,
                    mode: Mode::Lib {
                        dir: "./c".into(),
                        vul: defaults(Cat::Vul),
                        opt: defaults(Cat::Opt),
                        qa: defaults(Cat::Qa),
                    },
                    render: false,
                };
                let j = judge(&spec);
                r.evaluations += 2;
                r.steps += j.steps;
                r.count("enumerated_name_x_content_x_depth", 1);
                r.fault(&format!("inert_{}", fill.name()), 1);
                r.fault(&format!("inert_name_{}", class), 1);
                r.fault("poison_present", j.poison_present);
                r.fault("poison_read", j.poison_read);
                r.nontrivial.push(hash_str(62, &format!("{}|{}|{}", name, fill.name(), depth)));
                r.interleavings.push(j.decisions);
                if let Some((clause, detail)) = j.violation {
                    if r.violations.len() < 6 {
                        r.violations.push(Violation {
                            clause,
                            detail,
                            replay: spec.to_json(),
                        });
                    }
                }
            }
        }
    }
    r
}

impl Property for C16 {
    fn id(&self) -> &'static str {
        "C16"
    }
    fn level(&self) -> &'static str {
        "fault_enumeration"
    }
    fn budget(&self, tier: Tier) -> u64 {
        match tier {
            Tier::Quick => 10_000,
            Tier::Thorough => 300_000,
        }
    }
    fn scenario(&self, _ctx: &Ctx, _index: u64, rng: &mut Rng, screen: &mut Screen) -> ScnResult {
        let mut r = ScnResult::default();
        let spec = gen_spec(rng, screen);
        let j = judge(&spec);
        r.evaluations = 2;
        r.steps = j.steps;
        let dir = match &spec.mode {
            Mode::Lib { dir, .. } => dir.clone(),
            _ => ".".into(),
        };
        let root = spec.world.resolve(std::path::Path::new(&dir));
        for p in inert_paths(&spec.world, &root) {
            if let Some((bytes, fault)) = spec.world.file(&p) {
                let kind = if fault == Fault::Eio {
                    InertFill::Eio
                } else if fault == Fault::Eacces {
                    InertFill::Eacces
                } else if bytes.is_empty() {
                    InertFill::Empty
                } else if std::str::from_utf8(bytes).is_err() {
                    InertFill::Binary
                } else if bytes.starts_with(b"pragma solidity 0.8.16;\ncontract {") {
                    InertFill::Unparseable
                } else {
                    InertFill::Stuffed
                };
                r.fault(&format!("inert_{}", kind.name()), 1);
            }
        }
        r.fault("poison_present", j.poison_present);
        r.fault("poison_read", j.poison_read);
        r.count("inert_files_present", j.inert_present);
        r.count("inert_files_read_by_solstat", j.inert_read);
        r.probe("poisoned_inert_file_present", j.poison_present > 0);
        r.probe(
            "blank_eligible_file_present",
            spec.world.files().iter().any(|f| eligible_name(crate::world::base_name(f)) && spec.world.file(f).map_or(false, |(b, _)| gen::is_blank(b))),
        );
        r.probe("inert_dir_name_looks_like_file", spec.world.dirs().iter().any(|d| d.ends_with(".sol")));
        r.interleavings.push(j.decisions);
        let wh = hash_str(63, &spec.world.to_json().to_string());
        r.states.push(wh);
        if j.consequential && j.eligible_with_findings {
            r.nontrivial.push(mix(wh ^ j.decisions));
        }
        r.mixin(j.trace);
        if j.consequential && rng.chance(1, 10) {
            r.sample = Some(j.sample);
        }
        if let Some((clause, detail)) = j.violation {
            r.violations.push(Violation {
                clause,
                detail,
                replay: spec.to_json(),
            });
        }
        r
    }
    fn prelude(&self, _ctx: &Ctx, screen: &mut Screen) -> Option<ScnResult> {
        Some(enumerate(screen))
    }
    fn exhaustive_note(&self) -> Option<String> {
        Some(format!(
            "the cross product of {} inert names (classes: upper/mixed-case extension, '.sol' inside the name, no dot, Foundry test in three casings, other, report name) x {} contents (empty, invalid UTF-8, unparseable, findings-stuffed valid Solidity, read->EIO, read->EACCES) x 2 depths is enumerated completely; tree shapes around it are seeded samples",
            INERT_NAMES.len(),
            INERT_FILLS.len()
        ))
    }
    fn replay(&self, ctx: &Ctx, scn: &Value) -> Result<Option<Violation>, String> {
        let spec = RunSpec::from_json(scn, &ctx.doc.names)?;
        Ok(judge(&spec).violation.map(|(clause, detail)| Violation {
            clause,
            detail,
            replay: scn.clone(),
        }))
    }
    fn shrink(&self, ctx: &Ctx, scn: &Value) -> Vec<Value> {
        match RunSpec::from_json(scn, &ctx.doc.names) {
            Ok(s) => crate::shrink::shrink_runspec(&s)
                .into_iter()
                .map(|x| x.to_json())
                .collect(),
            Err(_) => vec![],
        }
    }
    fn required_probes(&self) -> Vec<&'static str> {
        vec!["poisoned_inert_file_present", "inert_dir_name_looks_like_file"]
    }
    fn rule(&self) -> String {
        "Each scenario walks a generated tree twice under the same schedule: as is, and with every inert file deleted; the two results must be the same multiset and the first run must not fail if the second does not; in addition the second result must equal the independent walk over the eligible files. Inert files come from an adversarial name pool and each carries one fault kind (empty, invalid UTF-8, unparseable text, findings-stuffed valid Solidity, read->EIO, read->EACCES); directories named like files ('lib.sol/', 'test.t.sol/') are walked. The name x content x depth cross product is enumerated completely first. Non-trivial = at least one inert file whose accidental analysis would be consequential and at least one eligible file with findings; distinct = distinct hash of (world, decision trace), resp. distinct (name, content, depth) triple. evaluations counts single walks.".into()
    }
    fn assumptions(&self) -> Vec<String> {
        vec![
            "valid-Unicode names only; names with '.t.sol' in the middle are not generated; failure of read_dir itself and files vanishing between listing and read are not injected (the property is silent about them)".into(),
            "reading an inert file is not by itself a violation (the property speaks of influence and failure); poisoned reads make every such read consequential and are counted".into(),
        ]
    }
    fn components(&self) -> Value {
        json!({
            "real": ["the three analyze_dir walkers incl. the name filter", "detectors", "solang-parser"],
            "stubbed": ["std::fs -> in-memory tree with per-file read faults and seeded listing order"],
        })
    }
}
