//! Batch runner shared by all properties: seeded scenario streams on worker threads, aggregation
//! of coverage counters, violation handling (minimise, write replay file, confirm in a fresh
//! process), known-findings filter and the evidence file.

use crate::corpus::Screen;
use crate::docs::Documented;
use crate::rng::{hash_str, mix, stream_seed, Rng};
use serde_json::{json, Map, Value};
use std::collections::{BTreeMap, BTreeSet, HashSet};
use std::sync::atomic::{AtomicBool, AtomicU64, Ordering};
use std::sync::Mutex;
use std::time::Instant;

pub const DEFAULT_SEED: u64 = 20260926;

#[derive(Clone, Debug)]
pub struct Violation {
    /// which oracle clause failed (stable identifier, used to keep minimisation on the same bug)
    pub clause: String,
    /// human-readable witness
    pub detail: String,
    /// self-contained scenario (without the "property"/"clause" envelope)
    pub replay: Value,
}

#[derive(Default, Clone)]
pub struct ScnResult {
    pub evaluations: u64,
    pub steps: u64,
    pub nontrivial: Vec<u64>,
    pub interleavings: Vec<u64>,
    pub states: Vec<u64>,
    pub faults: BTreeMap<String, u64>,
    pub probes: BTreeMap<String, u64>,
    pub extra: BTreeMap<String, u64>,
    pub violations: Vec<Violation>,
    pub sample: Option<Value>,
    /// hash of everything observable in the scenario (journals, results, report bytes)
    pub trace_hash: u64,
    /// harness-level problem (not a property violation)
    pub harness_error: Option<String>,
}

impl ScnResult {
    pub fn fault(&mut self, k: &str, n: u64) {
        if n > 0 {
            *self.faults.entry(k.to_string()).or_insert(0) += n;
        }
    }
    pub fn probe(&mut self, k: &str, hit: bool) {
        let e = self.probes.entry(k.to_string()).or_insert(0);
        if hit {
            *e += 1;
        }
    }
    pub fn count(&mut self, k: &str, n: u64) {
        *self.extra.entry(k.to_string()).or_insert(0) += n;
    }
    pub fn mixin(&mut self, h: u64) {
        self.trace_hash = mix(self.trace_hash ^ h);
    }
}

pub struct Ctx {
    pub seed: u64,
    pub tier: Tier,
    pub doc: Documented,
    pub verif_root: String,
}

#[derive(Clone, Copy, Debug, PartialEq, Eq)]
pub enum Tier {
    Quick,
    Thorough,
}

impl Tier {
    pub fn name(&self) -> &'static str {
        match self {
            Tier::Quick => "quick",
            Tier::Thorough => "thorough",
        }
    }
}

pub trait Property: Sync {
    fn id(&self) -> &'static str;
    fn level(&self) -> &'static str {
        "exploration"
    }
    /// number of scenario streams for the tier
    fn budget(&self, tier: Tier) -> u64;
    fn scenario(&self, ctx: &Ctx, index: u64, rng: &mut Rng, screen: &mut Screen) -> ScnResult;
    /// Execute a stored scenario; `Some` if it violates the property.
    fn replay(&self, ctx: &Ctx, scn: &Value) -> Result<Option<Violation>, String>;
    /// Smaller variants of a stored scenario.
    fn shrink(&self, ctx: &Ctx, scn: &Value) -> Vec<Value>;
    /// probes that must be hit at least once per batch (else harness error)
    fn required_probes(&self) -> Vec<&'static str>;
    fn rule(&self) -> String;
    fn assumptions(&self) -> Vec<String>;
    fn components(&self) -> Value;
    /// deterministic work done once before the scenario streams (e.g. an exhaustive sub-space)
    fn prelude(&self, _ctx: &Ctx, _screen: &mut Screen) -> Option<ScnResult> {
        None
    }
    fn exhaustive_note(&self) -> Option<String> {
        None
    }
    /// work that must precede the scenario streams (e.g. a baseline computed in fresh processes)
    fn prepare(&self, _ctx: &Ctx) -> Result<(), String> {
        Ok(())
    }
    fn finish(&self, _ctx: &Ctx) {}
}

#[derive(Default)]
pub struct Agg {
    pub evaluations: u64,
    pub scenarios: u64,
    pub steps: u64,
    pub nontrivial: HashSet<u64>,
    pub interleavings: HashSet<u64>,
    pub states: HashSet<u64>,
    pub faults: BTreeMap<String, u64>,
    pub probes: BTreeMap<String, u64>,
    pub extra: BTreeMap<String, u64>,
    pub violations: Vec<(u64, Violation)>,
    pub samples: Vec<Value>,
    pub trace_hashes: BTreeMap<u64, u64>,
    pub harness_errors: Vec<String>,
    pub screened_out: u64,
    pub screened_in: u64,
}

impl Agg {
    pub fn absorb(&mut self, index: u64, r: ScnResult) {
        self.scenarios += 1;
        self.evaluations += r.evaluations;
        self.steps += r.steps;
        self.nontrivial.extend(r.nontrivial);
        self.interleavings.extend(r.interleavings);
        self.states.extend(r.states);
        for (k, v) in r.faults {
            *self.faults.entry(k).or_insert(0) += v;
        }
        for (k, v) in r.probes {
            *self.probes.entry(k).or_insert(0) += v;
        }
        for (k, v) in r.extra {
            *self.extra.entry(k).or_insert(0) += v;
        }
        for v in r.violations {
            // keep the first few of every clause (a frequent clause must not crowd out a rare one)
            let same = self
                .violations
                .iter()
                .filter(|(_, w)| w.clause == v.clause)
                .count();
            if same < 8 && self.violations.len() < 512 {
                self.violations.push((index, v));
            }
        }
        if let Some(s) = r.sample {
            if self.samples.len() < 3 {
                self.samples.push(s);
            }
        }
        self.trace_hashes.insert(index, r.trace_hash);
        if let Some(e) = r.harness_error {
            if self.harness_errors.len() < 8 {
                self.harness_errors.push(format!("scenario {}: {}", index, e));
            }
        }
    }
}

pub fn workers() -> usize {
    if crate::simenv::exclusive() {
        return 1;
    }
    std::env::var("VERIF_WORKERS")
        .ok()
        .and_then(|s| s.parse().ok())
        .unwrap_or_else(|| {
            std::thread::available_parallelism()
                .map(|n| n.get())
                .unwrap_or(4)
                .min(16)
        })
}

/// Run scenario streams `from..to` of a property on worker threads. Results do not depend on the
/// worker count: stream i is seeded by (seed, property, i) and aggregation is keyed by i.
pub fn run_streams(
    prop: &dyn Property,
    ctx: &Ctx,
    from: u64,
    to: u64,
    deadline: Option<Instant>,
) -> Agg {
    run_streams_with(
        prop.id(),
        ctx,
        from,
        to,
        deadline,
        &|i, rng, screen| prop.scenario(ctx, i, rng, screen),
    )
}

pub fn run_streams_with(
    label: &str,
    ctx: &Ctx,
    from: u64,
    to: u64,
    deadline: Option<Instant>,
    f: &(dyn Fn(u64, &mut Rng, &mut Screen) -> ScnResult + Sync),
) -> Agg {
    let next = AtomicU64::new(from);
    let stop = AtomicBool::new(false);
    let results: Mutex<Vec<(u64, ScnResult)>> = Mutex::new(vec![]);
    let screens: Mutex<(u64, u64)> = Mutex::new((0, 0));
    let n_workers = workers();
    std::thread::scope(|s| {
        for _ in 0..n_workers {
            std::thread::Builder::new()
                .stack_size(64 << 20)
                .spawn_scoped(s, || {
                    let mut screen = Screen::new();
                    let mut local: Vec<(u64, ScnResult)> = vec![];
                    loop {
                        if stop.load(Ordering::Relaxed) {
                            break;
                        }
                        let i = next.fetch_add(1, Ordering::Relaxed);
                        if i >= to {
                            break;
                        }
                        if let Some(d) = deadline {
                            if Instant::now() > d {
                                stop.store(true, Ordering::Relaxed);
                                break;
                            }
                        }
                        let mut rng = Rng::new(stream_seed(ctx.seed, label, i));
                        let r = f(i, &mut rng, &mut screen);
                        local.push((i, r));
                        if local.len() >= 64 {
                            results.lock().unwrap().append(&mut local);
                        }
                    }
                    results.lock().unwrap().append(&mut local);
                    let mut g = screens.lock().unwrap();
                    g.0 += screen.screened_in;
                    g.1 += screen.screened_out;
                })
                .expect("spawn worker");
        }
    });
    let mut all = results.into_inner().unwrap();
    all.sort_by_key(|(i, _)| *i);
    let mut agg = Agg::default();
    for (i, r) in all {
        agg.absorb(i, r);
    }
    let g = screens.into_inner().unwrap();
    agg.screened_in = g.0;
    agg.screened_out = g.1;
    agg
}

// ------------------------------------------------------------------------------------------------
// known findings

#[derive(Clone, Debug)]
pub struct KnownFinding {
    pub property: String,
    pub clause: String,
    /// substring that must occur in the violation detail for the entry to apply
    pub witness: String,
    pub what: String,
}

pub fn load_known(verif_root: &str) -> Vec<KnownFinding> {
    let p = format!("{}/known_findings.json", verif_root);
    let text = match std::fs::read_to_string(&p) {
        Ok(t) => t,
        Err(_) => return vec![],
    };
    let v: Value = match serde_json::from_str(&text) {
        Ok(v) => v,
        Err(_) => return vec![],
    };
    let mut out = vec![];
    if let Some(a) = v["known"].as_array() {
        for k in a {
            out.push(KnownFinding {
                property: k["property"].as_str().unwrap_or("").to_string(),
                clause: k["clause"].as_str().unwrap_or("").to_string(),
                witness: k["witness"].as_str().unwrap_or("").to_string(),
                what: k["what"].as_str().unwrap_or("").to_string(),
            });
        }
    }
    out
}

pub fn is_known<'a>(known: &'a [KnownFinding], prop: &str, v: &Violation) -> Option<&'a KnownFinding> {
    known.iter().find(|k| {
        k.property == prop
            && k.clause == v.clause
            && (k.witness.is_empty() || v.detail.contains(&k.witness))
    })
}

// ------------------------------------------------------------------------------------------------
// minimisation and replay files

pub fn envelope(prop: &str, seed: u64, index: u64, v: &Violation) -> Value {
    json!({
        "property": prop,
        "seed": seed,
        "scenario_index": index,
        "clause": v.clause,
        "detail": v.detail,
        "scenario": v.replay,
    })
}

/// Execute a stored scenario with the engine it belongs to.
pub fn replay_any(prop: &dyn Property, ctx: &Ctx, scn: &Value) -> Result<Option<Violation>, String> {
    if scn["engine"].as_str() == Some("simbin") {
        crate::simbin::replay(prop.id(), ctx, scn)
    } else if scn["engine"].as_str() == Some("simmiri") {
        crate::simmiri::replay(ctx, scn)
    } else {
        prop.replay(ctx, scn)
    }
}

pub fn shrink_any(prop: &dyn Property, ctx: &Ctx, scn: &Value) -> Vec<Value> {
    if scn["engine"].as_str() == Some("simbin") {
        crate::simbin::shrink(scn)
    } else if scn["engine"].as_str() == Some("simmiri") {
        vec![]
    } else {
        prop.shrink(ctx, scn)
    }
}

/// Greedy delta debugging: keep applying the first shrink candidate that still violates the same
/// clause. Bounded number of re-executions.
pub fn minimise(prop: &dyn Property, ctx: &Ctx, v: Violation, max_execs: usize) -> (Violation, usize) {
    let mut cur = v;
    let mut execs = 0usize;
    let t0 = Instant::now();
    let budget_s: u64 = std::env::var("VERIF_MINIMISE_SECONDS")
        .ok()
        .and_then(|s| s.parse().ok())
        .unwrap_or(25);
    'outer: loop {
        let cands = shrink_any(prop, ctx, &cur.replay);
        for c in cands {
            if execs >= max_execs || t0.elapsed().as_secs() >= budget_s {
                break 'outer;
            }
            execs += 1;
            if let Ok(Some(nv)) = replay_any(prop, ctx, &c) {
                if nv.clause == cur.clause {
                    cur = nv;
                    continue 'outer;
                }
            }
        }
        break;
    }
    (cur, execs)
}

pub fn size_of(v: &Value) -> usize {
    v.to_string().len()
}

// ------------------------------------------------------------------------------------------------
// the whole check of one property

pub struct CheckOutcome {
    pub exit_code: i32,
}

pub fn check(prop: &dyn Property, ctx: &Ctx) -> CheckOutcome {
    let t0 = Instant::now();
    let id = prop.id();
    say!(
        "[{}] tier={} VERIF_SEED={} workers={}",
        id,
        ctx.tier.name(),
        ctx.seed,
        workers()
    );

    let budget = prop.budget(ctx.tier);
    let deadline = std::env::var("VERIF_MAX_SECONDS")
        .ok()
        .and_then(|s| s.parse::<u64>().ok())
        .map(|s| t0 + std::time::Duration::from_secs(s));

    if let Err(e) = prop.prepare(ctx) {
        say!("[{}] HARNESS: preparation failed: {}", id, e);
        prop.finish(ctx);
        return CheckOutcome { exit_code: 2 };
    }

    // determinism slice: the first 64 streams twice, single worker vs all workers is covered by
    // `selftest`; here the same streams are simply executed twice and compared.
    let slice = budget.min(64);
    let a = run_streams(prop, ctx, 0, slice, None);
    let b = run_streams(prop, ctx, 0, slice, None);
    let determinism_ok = a.trace_hashes == b.trace_hashes;
    if !determinism_ok {
        let bad: Vec<u64> = a
            .trace_hashes
            .iter()
            .filter(|(k, v)| b.trace_hashes.get(k) != Some(v))
            .map(|(k, _)| *k)
            .take(5)
            .collect();
        say!(
            "[{}] HARNESS: determinism slice differs between two executions (streams {:?})",
            id, bad
        );
    }

    let mut agg = run_streams(prop, ctx, 0, budget, deadline);
    let mut exclusive_note: Option<String> = None;
    let orphans = solstat::verif_shim::orphan_calls();
    if orphans > 0 {
        // solstat touched the file system from threads the simulator did not start: their calls went
        // past the simulated world. Results of the parallel pass are meaningless; run again, one
        // simulated run at a time, with the run's Env as the process-wide fallback.
        let reduced = (budget / 8).max(200).min(budget);
        say!(
            "[{}] note: {} file-system calls came from threads started by solstat itself; re-running {} streams in exclusive mode (one run at a time, process-wide Env)",
            id, orphans, reduced
        );
        crate::simenv::EXCLUSIVE.store(true, std::sync::atomic::Ordering::SeqCst);
        agg = run_streams(prop, ctx, 0, reduced, deadline);
        exclusive_note = Some(format!(
            "solstat starts threads of its own ({} file-system calls without an Env in the parallel pass); the reported figures are from {} streams run one at a time with a process-wide Env",
            orphans, reduced
        ));
    }
    let mut engines = vec!["simproc".to_string()];
    let bin_budget = crate::simbin::budget(id, ctx.tier == Tier::Thorough);
    match crate::simbin::bin_path() {
        Some(bin) if bin_budget > 0 => {
            let label = format!("{}-simbin", id);
            let pid = id.to_string();
            let b = run_streams_with(&label, ctx, 0, bin_budget, deadline, &|_i, rng, screen| {
                crate::simbin::scenario(&pid, ctx, &bin, rng, screen).unwrap_or_default()
            });
            engines.push("simbin".to_string());
            // merge
            agg.evaluations += b.evaluations;
            agg.steps += b.steps;
            agg.nontrivial.extend(b.nontrivial);
            agg.interleavings.extend(b.interleavings);
            agg.states.extend(b.states);
            for (k, v) in b.faults {
                *agg.faults.entry(k).or_insert(0) += v;
            }
            for (k, v) in b.extra {
                *agg.extra.entry(k).or_insert(0) += v;
            }
            for (i, v) in b.violations {
                agg.violations.push((1_000_000_000 + i, v));
            }
            agg.harness_errors.extend(b.harness_errors);
        }
        _ => {
            if bin_budget > 0 {
                say!("[{}] note: SOLSTAT_BIN not set, the simbin engine is skipped", id);
            }
        }
    }
    if crate::simmiri::applies(id) {
        let m = crate::simmiri::stage(id, ctx);
        if m.evaluations > 0 || !m.violations.is_empty() || m.harness_error.is_some() {
            engines.push("simmiri".to_string());
        }
        agg.evaluations += m.evaluations;
        agg.steps += m.steps;
        agg.nontrivial.extend(m.nontrivial);
        agg.interleavings.extend(m.interleavings);
        for (k, v) in m.faults {
            *agg.faults.entry(k).or_insert(0) += v;
        }
        for (k, v) in m.extra {
            *agg.extra.entry(k).or_insert(0) += v;
        }
        for v in m.violations {
            agg.violations.push((2_000_000_000, v));
        }
        if let Some(e) = m.harness_error {
            agg.harness_errors.push(e);
        }
    }
    // everything from here on (prelude, minimisation) runs one scenario at a time on this thread
    crate::simenv::EXCLUSIVE.store(true, std::sync::atomic::Ordering::SeqCst);
    let mut exhaustive = false;
    {
        let mut screen = Screen::new();
        if let Some(r) = prop.prelude(ctx, &mut screen) {
            exhaustive = r.harness_error.is_none();
            agg.absorb(u64::MAX, r);
            agg.scenarios -= 1;
        }
    }

    // required probes
    let mut dead: Vec<String> = vec![];
    for p in prop.required_probes() {
        if agg.probes.get(p).copied().unwrap_or(0) == 0 {
            dead.push(p.to_string());
        }
    }

    prop.finish(ctx);

    // violations: group by clause, minimise the first of each, confirm in a fresh process
    let known = load_known(&ctx.verif_root);
    let mut reported: Vec<(String, String)> = vec![];
    let mut known_lines: BTreeSet<String> = BTreeSet::new();
    let mut new_violations = 0usize;
    let mut by_clause: BTreeMap<String, (u64, Violation)> = BTreeMap::new();
    let mut unknown_by_clause: BTreeMap<String, (u64, Violation)> = BTreeMap::new();
    for (i, v) in &agg.violations {
        if let Some(k) = is_known(&known, id, v) {
            known_lines.insert(format!("KNOWN-FINDING: property={} {}", id, k.what));
            by_clause.entry(v.clause.clone()).or_insert((*i, v.clone()));
        } else {
            unknown_by_clause
                .entry(v.clause.clone())
                .or_insert((*i, v.clone()));
        }
    }
    for l in &known_lines {
        say!("{}", l);
    }
    let replay_dir = format!("{}/replays", ctx.verif_root);
    let _ = std::fs::create_dir_all(&replay_dir);
    for (clause, (index, v)) in unknown_by_clause {
        let before = size_of(&v.replay);
        let original = v.clone();
        let (mut mv, execs) = minimise(prop, ctx, v, 400);
        // a minimised scenario must not turn into a *known* one and thereby get lost; if it does,
        // it is still reported (the unminimised original was not known)
        let after = size_of(&mv.replay);
        let path = format!(
            "{}/{}-{}-{}-{:08x}.json",
            replay_dir,
            id,
            ctx.seed,
            if index == u64::MAX { "pre".to_string() } else { index.to_string() },
            hash_str(3, &clause) as u32
        );
        let env = envelope(id, ctx.seed, index, &mv);
        if let Err(e) = std::fs::write(&path, serde_json::to_string_pretty(&env).unwrap()) {
            say!("[{}] HARNESS: cannot write replay file {}: {}", id, path, e);
            return CheckOutcome { exit_code: 2 };
        }
        // confirm in a fresh process; if the minimised scenario does not reproduce there, fall back
        // to the scenario as it was found
        let mut confirmed = confirm_in_fresh_process(&path, id);
        if !confirmed && size_of(&original.replay) != after {
            mv = original.clone();
            let env = envelope(id, ctx.seed, index, &mv);
            let _ = std::fs::write(&path, serde_json::to_string_pretty(&env).unwrap());
            confirmed = confirm_in_fresh_process(&path, id);
            say!("[{}] note: the minimised scenario did not reproduce in a fresh process; reporting the unminimised one", id);
        }
        say!(
            "[{}] violation clause={} scenario={} minimised {}->{} bytes in {} re-executions; fresh-process replay: {}",
            id,
            clause,
            index,
            before,
            after,
            execs,
            if confirmed { "reproduced" } else { "NOT reproduced" }
        );
        say!("[{}]   {}", id, mv.detail.replace('\n', "\n      "));
        if confirmed {
            say!("VIOLATION property={} replay={}", id, path);
            new_violations += 1;
            reported.push((clause, path));
        } else {
            // The violation was observed by this run but does not replay from its file: it depends on
            // something outside the simulator's control (e.g. allocator addresses). It is still a
            // violation; it is reported, flagged as not replayable.
            say!("[{}] note: violation of clause {} was observed but does NOT reproduce from {} (depends on state the simulator does not control)", id, clause, path);
            say!("VIOLATION property={} replay={}", id, path);
            new_violations += 1;
            reported.push((clause, path));
        }
    }

    let wall = t0.elapsed().as_secs_f64();
    let runs_per_hour = if wall > 0.0 {
        (agg.evaluations as f64 / wall * 3600.0) as u64
    } else {
        0
    };

    // evidence
    let mut coverage = Map::new();
    coverage.insert("evaluations".into(), json!(agg.evaluations));
    coverage.insert("distinct_nontrivial".into(), json!(agg.nontrivial.len()));
    coverage.insert("rule".into(), json!(prop.rule()));
    coverage.insert("samples".into(), json!(agg.samples));
    coverage.insert("scenario_streams".into(), json!(agg.scenarios));
    coverage.insert("seeds".into(), json!(format!(
        "VERIF_SEED={} ; stream i is seeded by hash(VERIF_SEED, \"{}\", i), i in 0..{}",
        ctx.seed, id, agg.scenarios
    )));
    coverage.insert("runs_per_hour".into(), json!(runs_per_hour));
    coverage.insert("steps_total".into(), json!(agg.steps));
    coverage.insert(
        "simulated_time".into(),
        json!("simproc/simmiri: not applicable -- solstat has no clock, timer or deadline, progress is counted in steps (environment calls + library calls + yield points). simbin: every run of the real binary sees a wall clock shifted by a seed-derived offset in [0, 3 years) (see simulated_wall_clock_seconds_spanned_by_groups_total where present)"),
    );
    coverage.insert("fault_kinds_fired".into(), json!(agg.faults));
    coverage.insert("probes".into(), json!(agg.probes));
    coverage.insert("distinct_interleavings".into(), json!(agg.interleavings.len()));
    coverage.insert(
        "distinct_interleavings_measure".into(),
        json!("distinct hashes of the decision trace (listing orders returned, iteration permutations, task choices) of a run"),
    );
    coverage.insert("distinct_states".into(), json!(agg.states.len()));
    coverage.insert(
        "distinct_states_measure".into(),
        json!("distinct hashes of (world, findings/result) reached"),
    );
    let mut comps = serde_json::Map::new();
    comps.insert("simproc".into(), prop.components());
    if engines.iter().any(|e| e == "simbin") {
        comps.insert("simbin".into(), json!({
            "real": ["the solstat binary built from the working tree with --cfg solstat_verif: main.rs, clap, std::fs on a real scratch tree, real exit status, real process boundaries"],
            "stubbed": ["directory listing order and findings-map iteration order -> derived from SOLSTAT_VERIF_SEED (RealSeeded)", "wall clock -> shifted by a seed-derived offset (LD_PRELOAD interposer simclock/fakeclock.c)", "TZ/LANG/USER/HOME/COLUMNS and the location of the tree -> derived from the seed"],
        }));
    }
    if engines.iter().any(|e| e == "simmiri") {
        comps.insert("simmiri".into(), json!({
            "real": ["solstat library incl. std HashMap with real RandomState, std::thread spawn/join, detectors, renderers (interpreted by Miri, isolation on, data-race and UB detection on)"],
            "stubbed": ["thread schedule (preemption points) and OS entropy -> functions of the Miri seed"],
        }));
    }
    coverage.insert("components".into(), Value::Object(comps));
    coverage.insert("screened_out".into(), json!(agg.screened_out));
    coverage.insert("screened_in".into(), json!(agg.screened_in));
    if let Some(n) = &exclusive_note {
        coverage.insert("exclusive_mode".into(), json!(n));
    }
    coverage.insert("determinism_slice_ok".into(), json!(determinism_ok));
    coverage.insert("determinism_slice_streams".into(), json!(slice));
    coverage.insert("known_findings_hit".into(), json!(known_lines.len()));
    for (k, v) in &agg.extra {
        coverage.insert(k.clone(), json!(v));
    }
    if exhaustive {
        if let Some(n) = prop.exhaustive_note() {
            coverage.insert("exhaustive".into(), json!(true));
            coverage.insert("exhaustive_scope".into(), json!(n));
        }
    }
    if !dead.is_empty() {
        coverage.insert("dead_probes".into(), json!(dead));
    }
    let evidence = json!({
        "property_id": id,
        "tier": ctx.tier.name(),
        "seed": ctx.seed,
        "level": prop.level(),
        "coverage": Value::Object(coverage),
        "assumptions": prop.assumptions(),
        "wall_s": wall,
        "violations": new_violations,
    });
    let ev_path = format!("{}/evidence/{}.json", ctx.verif_root, id);
    let _ = std::fs::create_dir_all(format!("{}/evidence", ctx.verif_root));
    write_evidence(&ev_path, evidence, &engines);

    say!(
        "[{}] {} scenario streams, {} simulated runs, {} steps, {} distinct non-trivial, {} distinct interleavings, {:.1}s ({} runs/h)",
        id,
        agg.scenarios,
        agg.evaluations,
        agg.steps,
        agg.nontrivial.len(),
        agg.interleavings.len(),
        wall,
        runs_per_hour
    );
    say!("[{}] faults fired: {:?}", id, agg.faults);
    say!("[{}] probes: {:?}", id, agg.probes);

    if new_violations > 0 {
        return CheckOutcome { exit_code: 1 };
    }
    if !determinism_ok && exclusive_note.is_none() {
        return CheckOutcome { exit_code: 2 };
    }
    if !agg.harness_errors.is_empty() {
        for e in &agg.harness_errors {
            say!("[{}] HARNESS: {}", id, e);
        }
        return CheckOutcome { exit_code: 2 };
    }
    if !dead.is_empty() {
        if exclusive_note.is_some() {
            // the reduced, one-at-a-time pass is too small to promise every rare shape
            say!("[{}] note: probes not hit in the reduced exclusive-mode pass: {:?}", id, dead);
        } else {
            say!("[{}] HARNESS: probes never hit: {:?}", id, dead);
            return CheckOutcome { exit_code: 2 };
        }
    }
    CheckOutcome { exit_code: 0 }
}

pub fn write_evidence(path: &str, ev: Value, engines: &[String]) {
    let mut out = ev;
    out["coverage"]["engines_run"] = json!(engines);
    let s = serde_json::to_string_pretty(&out).unwrap();
    if let Err(e) = std::fs::write(path, s) {
        say!("HARNESS: cannot write evidence {}: {}", path, e);
    }
}

pub fn confirm_in_fresh_process(path: &str, id: &str) -> bool {
    let exe = match std::env::current_exe() {
        Ok(e) => e,
        Err(_) => return false,
    };
    let out = std::process::Command::new(exe)
        .arg("replay")
        .arg(path)
        .env("SIM_QUIET", "1")
        .output();
    match out {
        Ok(o) => {
            let code = o.status.code().unwrap_or(-1);
            let so = String::from_utf8_lossy(&o.stdout);
            code == 1 && so.contains(&format!("VIOLATION property={}", id))
        }
        Err(_) => false,
    }
}

/// `sim replay <file>`: exit 1 + VIOLATION line if the stored scenario still violates its clause.
pub fn replay_file(props: &[&dyn Property], ctx: &Ctx, path: &str) -> i32 {
    crate::simenv::EXCLUSIVE.store(true, std::sync::atomic::Ordering::SeqCst);
    let text = match std::fs::read_to_string(path) {
        Ok(t) => t,
        Err(e) => {
            say!("HARNESS: cannot read {}: {}", path, e);
            return 2;
        }
    };
    let v: Value = match serde_json::from_str(&text) {
        Ok(v) => v,
        Err(e) => {
            say!("HARNESS: {} is not JSON: {}", path, e);
            return 2;
        }
    };
    let id = v["property"].as_str().unwrap_or("");
    let clause = v["clause"].as_str().unwrap_or("");
    let prop = match props.iter().find(|p| p.id() == id) {
        Some(p) => *p,
        None => {
            say!("HARNESS: replay file names unknown property {:?}", id);
            return 2;
        }
    };
    match replay_any(prop, ctx, &v["scenario"]) {
        Err(e) => {
            say!("HARNESS: cannot execute replay: {}", e);
            2
        }
        Ok(None) => {
            say!("[{}] replay of {} holds (no violation)", id, path);
            0
        }
        Ok(Some(nv)) => {
            say!("[{}] replay: clause={} {}", id, nv.clause, nv.detail);
            if nv.clause != clause {
                say!(
                    "[{}] note: stored clause was {:?}, observed {:?}",
                    id, clause, nv.clause
                );
            }
            say!("VIOLATION property={} replay={}", id, path);
            1
        }
    }
}

pub fn hash_value(v: &Value) -> u64 {
    hash_str(11, &v.to_string())
}
