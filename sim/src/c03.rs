//! C03 -- directory analysis is the exact union of the per-file results.

use crate::corpus::Screen;
use crate::framework::{Ctx, Property, ScnResult, Tier, Violation};
use crate::gen::{self, CwdPlace, TreeKnobs, LISTING_MODES};
use crate::model::{expected_by_path, multiset_diff, show_entries};
use crate::pats::{sorted, Cat, Flat, Pat, CATS};
use crate::rng::{hash_str, mix, Rng};
use crate::run::{run, Mode, Outcome, RunSpec};
use crate::simenv::{journal_hash, Ev};
use crate::world::{base_name, parent_of, World};
use serde_json::{json, Value};
use std::collections::{BTreeMap, BTreeSet};

pub struct C03;

pub fn gen_spec(rng: &mut Rng, screen: &mut Screen) -> (RunSpec, usize, usize) {
    gen_spec_at(rng, screen, true)
}

/// `vary`: the root may lie elsewhere than /w/c and eligible files may be blank (callers that fix
/// the directory or the pattern lists themselves pass false).
pub fn gen_spec_at(rng: &mut Rng, screen: &mut Screen, vary: bool) -> (RunSpec, usize, usize) {
    let mut world = World::new("/w");
    let mut k = TreeKnobs::draw(rng);
    if rng.chance(1, 2) {
        // bias towards the merge path: several directories, several eligible files
        k.max_dirs = k.max_dirs.max(2);
        k.max_depth = k.max_depth.max(1);
        k.min_eligible = rng.range(2, 4);
        k.max_files_per_dir = k.max_files_per_dir.max(2);
    }
    k.blank_files = vary && rng.chance(1, 8);
    // the analysed root sometimes lies below a directory whose name tools like to treat specially
    let root = if vary { gen::gen_root(rng) } else { "/w/c" };
    gen::gen_tree(rng, screen, &mut world, root, &k);
    let place = if rng.chance(1, 2) {
        CwdPlace::Parent
    } else {
        CwdPlace::Unrelated
    };
    let dir = gen::place_cwd(rng, &mut world, root, place);
    let (schedule, lm, im) = gen::gen_schedule(rng, &world);
    let (mut vul, mut opt, mut qa) = (gen::gen_pats(rng, Cat::Vul), gen::gen_pats(rng, Cat::Opt), gen::gen_pats(rng, Cat::Qa));
    for l in [&mut vul, &mut opt, &mut qa] {
        gen::keep_blank_tolerant(&world, l);
    }
    let spec = RunSpec {
        world,
        schedule,
        mode: Mode::Lib { dir, vul, opt, qa },
        render: false,
    };
    (spec, lm, im)
}

pub struct Judged {
    pub violation: Option<Violation>,
    pub unjudgeable: Option<String>,
    pub nontrivial: bool,
    pub probe_subdir_after_sibling: bool,
    pub probe_same_name: bool,
    pub expected_total: usize,
}

/// The union oracle, shared with C15/C16 (which evaluate it on their own runs).
pub fn judge(spec: &RunSpec, out: &Outcome) -> Judged {
    let (dir, _) = match &spec.mode {
        Mode::Lib { dir, .. } => (dir.clone(), ()),
        Mode::Proc { .. } => match &out.opts {
            Some(o) => (o.path.clone(), ()),
            None => {
                return Judged {
                    violation: None,
                    unjudgeable: Some("no directory known".into()),
                    nontrivial: false,
                    probe_subdir_after_sibling: false,
                    probe_same_name: false,
                    expected_total: 0,
                }
            }
        },
    };
    let root = spec.world.resolve(std::path::Path::new(&dir));
    let mut j = Judged {
        violation: None,
        unjudgeable: None,
        nontrivial: false,
        probe_subdir_after_sibling: false,
        probe_same_name: false,
        expected_total: 0,
    };
    let mut per_path_all: BTreeMap<String, BTreeSet<String>> = BTreeMap::new();
    let mut mismatch: Option<(Cat, Flat, Flat)> = None;
    for cat in CATS {
        let pats: Vec<Pat> = match &spec.mode {
            Mode::Lib { .. } => spec.pats(cat),
            Mode::Proc { .. } => out.opts.as_ref().map(|o| o.of(cat).clone()).unwrap_or_default(),
        };
        let by_path = match expected_by_path(&spec.world, &root, &pats) {
            Ok(m) => m,
            Err(e) => {
                j.unjudgeable = Some(e);
                return j;
            }
        };
        for (p, es) in &by_path {
            let set = per_path_all.entry(p.clone()).or_default();
            for e in es {
                set.insert(e.pat.clone());
            }
        }
        let expected: Flat = sorted(by_path.into_values().flatten().collect());
        j.expected_total += expected.len();
        if out.abort.is_none() || out.stage >= stage_of(cat) {
            let actual = sorted(out.maps.flat_cat(cat));
            if expected != actual && mismatch.is_none() {
                mismatch = Some((cat, expected, actual));
            }
        }
    }

    // non-triviality and probes
    let mut dirs_with: BTreeMap<String, BTreeSet<String>> = BTreeMap::new(); // pattern -> dirs
    let mut names: BTreeMap<String, BTreeSet<String>> = BTreeMap::new();
    for (p, pats) in &per_path_all {
        names
            .entry(base_name(p).to_string())
            .or_default()
            .insert(parent_of(p));
        for pat in pats {
            dirs_with.entry(pat.clone()).or_default().insert(parent_of(p));
        }
    }
    j.nontrivial = dirs_with.values().any(|d| d.len() >= 2);
    j.probe_same_name = names.values().any(|d| d.len() >= 2);
    for ev in &out.journal {
        if let Ev::ReadDir {
            result: Ok(list), ..
        } = ev
        {
            for (jx, d) in list.iter().enumerate() {
                if !spec.world.is_dir(d) {
                    continue;
                }
                let prefix = format!("{}/", d);
                let mut sub: BTreeSet<&String> = BTreeSet::new();
                for (p, pats) in &per_path_all {
                    if p.starts_with(&prefix) {
                        sub.extend(pats.iter());
                    }
                }
                for f in &list[..jx] {
                    if let Some(pats) = per_path_all.get(f) {
                        if pats.iter().any(|x| sub.contains(x)) {
                            j.probe_subdir_after_sibling = true;
                        }
                    }
                }
            }
        }
    }

    if let Some(a) = &out.abort {
        j.violation = Some(Violation {
            clause: "walk_aborted".into(),
            detail: format!(
                "analysing {} aborted ({:?}) although every eligible file is readable and analysable on its own; expected {} entries",
                root, a, j.expected_total
            ),
            replay: spec.to_json(),
        });
        return j;
    }
    if let Some((cat, expected, actual)) = mismatch {
        let (missing, extra) = multiset_diff(&expected, &actual);
        let clause = if !missing.is_empty() && extra.is_empty() {
            "entries_dropped"
        } else if missing.is_empty() && !extra.is_empty() {
            "entries_invented_or_duplicated"
        } else {
            "entries_replaced"
        };
        j.violation = Some(Violation {
            clause: clause.into(),
            detail: format!(
                "{}: analyze_dir({}) differs from the union of the per-file results: {} expected, {} returned; missing: {}; unexpected: {}",
                cat.name(),
                root,
                expected.len(),
                actual.len(),
                show_entries(&missing, 4),
                show_entries(&extra, 4)
            ),
            replay: spec.to_json(),
        });
    }
    j
}

fn stage_of(cat: Cat) -> crate::run::Stage {
    match cat {
        Cat::Vul => crate::run::Stage::Vul,
        Cat::Opt => crate::run::Stage::Opt,
        Cat::Qa => crate::run::Stage::Qa,
    }
}

pub fn decision_hash(out: &Outcome) -> u64 {
    let mut h = 17u64;
    for e in &out.journal {
        match e {
            Ev::ReadDir { .. } | Ev::IterOrder { .. } => h = mix(h ^ hash_str(2, &e.render())),
            _ => {}
        }
    }
    h
}

/// Complete sub-space: 2-3 files placed in every way into the directories {c, c/s, c/s/t, c/u}
/// (two of the files share a bare name when they are in different directories), under every
/// listing order of every directory, all default patterns selected.
fn exhaustive_small_trees() -> ScnResult {
    let mut r = ScnResult::default();
    let dirs = ["/w/c", "/w/c/s", "/w/c/s/t", "/w/c/u"];
    let texts = [
        "pragma solidity ^0.8.16;\n\ncontract A {\n    uint256 private v;\n    function f() public {\n    }\n}\n",
        "pragma solidity ^0.8.16;\n\n\ncontract B {\n\n    uint256 private w;\n    function g() public {\n    }\n    function h(address t, address to) public {\n        IERC20(t).transfer(to, 1);\n    }\n}\n",
        "pragma solidity 0.8.3;\ncontract C {\n    function k() public {\n    }\n    uint256 private z;\n}\n",
    ];
    let vul = crate::pats::defaults(Cat::Vul);
    let opt = crate::pats::defaults(Cat::Opt);
    let qa = crate::pats::defaults(Cat::Qa);
    for n_files in 2..=3usize {
        let combos = 4usize.pow(n_files as u32);
        for combo in 0..combos {
            let mut world = World::new("/w");
            world.mkdir_p("/w/c");
            let mut ok = true;
            let mut c = combo;
            for i in 0..n_files {
                let d = dirs[c % 4];
                c /= 4;
                let name = if i == 2 { "a.sol" } else if i == 0 { "a.sol" } else { "b.sol" };
                let p = format!("{}/{}", d, name);
                if world.nodes.contains_key(&p) {
                    ok = false;
                    break;
                }
                world.put_file(&p, texts[i].as_bytes().to_vec(), crate::world::Fault::None);
            }
            if !ok {
                continue;
            }
            // all listing orders: one permutation index per directory with >= 2 entries
            let listed: Vec<(String, Vec<String>)> = world
                .dirs()
                .into_iter()
                .filter(|d| d.starts_with("/w/c"))
                .map(|d| {
                    let kids: Vec<String> = world.children(&d).into_iter().map(|k| crate::world::join(&d, &k)).collect();
                    (d, kids)
                })
                .filter(|(_, k)| k.len() >= 2)
                .collect();
            let mut perms_per_dir: Vec<Vec<Vec<usize>>> = vec![];
            for (_, kids) in &listed {
                let mut out = vec![];
                let mut idx: Vec<usize> = (0..kids.len()).collect();
                heap_permute(&mut idx, 0, &mut out);
                perms_per_dir.push(out);
            }
            let total: usize = perms_per_dir.iter().map(|p| p.len()).product::<usize>().max(1);
            for t in 0..total {
                let mut pol = crate::simenv::OrderPolicy::default();
                let mut x = t;
                for (di, (_, kids)) in listed.iter().enumerate() {
                    let perm = &perms_per_dir[di][x % perms_per_dir[di].len()];
                    x /= perms_per_dir[di].len();
                    for (pos, ki) in perm.iter().enumerate() {
                        pol.ranks.insert(kids[*ki].clone(), pos as u64);
                    }
                }
                let spec = RunSpec {
                    world: world.clone(),
                    schedule: crate::simenv::Schedule {
                        listing: pol,
                        iteration: Default::default(),
                    },
                    mode: Mode::Lib {
                        dir: "./c".into(),
                        vul: vul.clone(),
                        opt: opt.clone(),
                        qa: qa.clone(),
                    },
                    render: false,
                };
                let out = run(&spec);
                let j = judge(&spec, &out);
                r.evaluations += 1;
                r.steps += out.journal.len() as u64 + 3;
                r.count("exhaustive_small_tree_cases", 1);
                r.interleavings.push(decision_hash(&out));
                if j.nontrivial {
                    r.nontrivial.push(mix(hash_str(5, &spec.world.to_json().to_string()) ^ decision_hash(&out)));
                }
                if let Some(v) = j.violation {
                    if r.violations.len() < 4 {
                        r.violations.push(v);
                    }
                }
                if j.unjudgeable.is_some() {
                    r.harness_error = Some("a text of the exhaustive C03 sub-space is not analysable".into());
                    return r;
                }
            }
        }
    }
    r
}

fn heap_permute(v: &mut Vec<usize>, k: usize, out: &mut Vec<Vec<usize>>) {
    if k == v.len() {
        out.push(v.clone());
        return;
    }
    for i in k..v.len() {
        v.swap(k, i);
        heap_permute(v, k + 1, out);
        v.swap(k, i);
    }
}

impl Property for C03 {
    fn prelude(&self, _ctx: &Ctx, _screen: &mut Screen) -> Option<ScnResult> {
        Some(exhaustive_small_trees())
    }
    fn exhaustive_note(&self) -> Option<String> {
        Some("one sub-space is enumerated completely: 2-3 files (two sharing a bare name) placed in every way into {c, c/s, c/s/t, c/u}, under every listing order of every directory, all default patterns selected; everything else is seeded sampling".into())
    }
    fn id(&self) -> &'static str {
        "C03"
    }
    fn budget(&self, tier: Tier) -> u64 {
        match tier {
            Tier::Quick => 20_000,
            Tier::Thorough => 600_000,
        }
    }
    fn scenario(&self, _ctx: &Ctx, _index: u64, rng: &mut Rng, screen: &mut Screen) -> ScnResult {
        let mut r = ScnResult::default();
        let (spec, lm, im) = gen_spec(rng, screen);
        let out = run(&spec);
        let j = judge(&spec, &out);
        r.evaluations = 1;
        r.steps = out.journal.len() as u64 + 3;
        r.fault(&format!("listing_{}", LISTING_MODES[lm]), 1);
        r.fault(&format!("iteration_{}", gen::ITER_MODES[im]), 0);
        r.fault("listing_perm", out.journal.iter().filter(|e| matches!(e, Ev::ReadDir{..})).count() as u64);
        r.fault("pattern_perm", 1);
        let poisoned = spec
            .world
            .nodes
            .values()
            .filter(|n| matches!(n, crate::world::Node::File{fault, ..} if *fault != crate::world::Fault::None))
            .count() as u64;
        r.fault("poison_present", poisoned);
        r.fault(
            "poison_read",
            out.journal
                .iter()
                .filter(|e| matches!(e, Ev::Read{outcome, ..} if outcome == "EIO" || outcome == "EACCES"))
                .count() as u64,
        );
        r.probe("subdir_listed_after_sibling_with_shared_pattern", j.probe_subdir_after_sibling);
        r.probe("same_name_in_two_dirs", j.probe_same_name);
        r.probe(
            "blank_eligible_file_read_before_a_sibling",
            {
                // a white-space-only eligible file was read, and another file of the same directory after it
                let reads: Vec<&String> = out.journal.iter().filter_map(|e| match e { Ev::Read { path, .. } => Some(path), _ => None }).collect();
                reads.iter().enumerate().any(|(i, p)| {
                    spec.world.file(p).map_or(false, |(b, _)| !b.is_empty() && gen::is_blank(b))
                        && reads[i + 1..].iter().any(|q| crate::world::parent_of(q) == crate::world::parent_of(p))
                })
            },
        );
        r.probe(
            "directory_with_more_than_256_entries",
            out.journal.iter().any(|e| matches!(e, Ev::ReadDir { result: Ok(l), .. } if l.len() > 256)),
        );
        r.probe(
            "depth_ge_8",
            out.journal.iter().any(|e| matches!(e, Ev::ReadDir { path, .. } if path.matches('/').count() >= 10)),
        );
        let dh = decision_hash(&out);
        r.interleavings.push(dh);
        let wh = hash_str(5, &spec.world.to_json().to_string());
        r.states.push(mix(wh ^ hash_str(6, &format!("{:?}", sorted(out.maps.flat())))));
        if j.nontrivial {
            r.nontrivial.push(mix(wh ^ dh ^ hash_str(8, &format!("{:?}", spec.mode))));
        }
        if let Some(e) = j.unjudgeable {
            r.count("unjudgeable_worlds", 1);
            let _ = e;
        }
        r.mixin(journal_hash(&out.journal));
        r.mixin(hash_str(9, &format!("{:?}{}", out.maps.flat(), out.status())));
        if j.nontrivial && rng.chance(1, 8) {
            r.sample = Some(spec.sample(&out));
        }
        if let Some(v) = j.violation {
            r.violations.push(v);
        }
        r
    }
    fn replay(&self, ctx: &Ctx, scn: &Value) -> Result<Option<Violation>, String> {
        let spec = RunSpec::from_json(scn, &ctx.doc.names)?;
        let out = run(&spec);
        Ok(judge(&spec, &out).violation)
    }
    fn shrink(&self, ctx: &Ctx, scn: &Value) -> Vec<Value> {
        match RunSpec::from_json(scn, &ctx.doc.names) {
            Ok(s) => crate::shrink::shrink_runspec(&s)
                .into_iter()
                .map(|x| x.to_json())
                .collect(),
            Err(_) => vec![],
        }
    }
    fn required_probes(&self) -> Vec<&'static str> {
        vec![
            "subdir_listed_after_sibling_with_shared_pattern",
            "same_name_in_two_dirs",
            "directory_with_more_than_256_entries",
            "depth_ge_8",
        ]
    }
    fn rule(&self) -> String {
        "Each evaluation is one simulated walk of all three categories over a generated tree (<=6 directories, depth <=4, eligible + inert files, duplicate bare names) under a seeded listing schedule (7 modes) and seeded pattern subsets/orders; the result must equal, as a multiset of (pattern, file, lines), the independent walk that calls the real per-file function on every eligible file. Non-trivial = at least two eligible files in at least two different directories share a selected pattern with findings (the merge path is exercised); distinct = distinct hash of (world, selected patterns, decision trace).".into()
    }
    fn assumptions(&self) -> Vec<String> {
        vec![
            "the per-file functions analyze_for_* serve as their own oracle (what a detector should find is not claimed)".into(),
            "eligible files are valid UTF-8 and screened: parse and all default detectors return when called directly".into(),
            "file names containing '.t.sol' other than as a suffix are not generated (the property does not say which way they go)".into(),
            "std::fs is replaced by the in-memory Env behind the cfg(solstat_verif) seam; a fully-qualified std::fs call in solstat would bypass it (covered by the simbin engine)".into(),
        ]
    }
    fn components(&self) -> Value {
        json!({
            "real": ["analyzer::{optimizations,vulnerabilities,qa}::analyze_dir", "analyze_for_* and all detectors", "solang-parser", "regex"],
            "stubbed": ["std::fs::read_dir / is_dir / read_to_string -> in-memory tree with seeded listing order", "the three calls of main() are made by the driver"],
        })
    }
}
