#[macro_use]
mod out;
mod c03;
mod c11;
mod c13;
mod c14;
mod c15;
mod c16;
mod c18;
mod report;
mod synth;
mod corpus;
mod docs;
mod framework;
mod gen;
mod model;
mod pats;
mod proc;
mod rng;
mod run;
mod shrink;
mod simbin;
mod simmiri;
mod simenv;
mod world;

use framework::{Ctx, Property, Tier, DEFAULT_SEED};

fn props() -> Vec<Box<dyn Property>> {
    vec![
        Box::new(c03::C03),
        Box::new(c11::ReportProp { id: "C11" }),
        Box::new(c11::ReportProp { id: "C12" }),
        Box::new(c13::C13),
        Box::new(c14::C14),
        Box::new(c15::C15),
        Box::new(c16::C16),
        Box::new(c18::C18),
    ]
}

fn ctx_from_env(tier: Tier) -> Result<Ctx, String> {
    let seed = std::env::var("VERIF_SEED")
        .ok()
        .and_then(|s| s.trim().parse::<u64>().ok())
        .unwrap_or(DEFAULT_SEED);
    let verif_root = std::env::var("VERIF_ROOT").unwrap_or_else(|_| "/verif".to_string());
    Ok(Ctx {
        seed,
        tier,
        doc: docs::load()?,
        verif_root,
    })
}

static LAST_FOREIGN_PANIC: std::sync::Mutex<Option<String>> = std::sync::Mutex::new(None);
static LAST_OWN_PANIC: std::sync::Mutex<Option<String>> = std::sync::Mutex::new(None);

fn main() {
    // expected failures inside solstat (panics, simulated exits) stay quiet
    out::init();
    // ... but a panic raised by the simulator's own code is remembered (location and message), so
    // that a defect of the harness ends as "HARNESS: ..." with exit status 2, never silently
    std::panic::set_hook(Box::new(|info| {
        if let Some(loc) = info.location() {
            let file = loc.file();
            let own = !file.contains("/repo/") && !file.contains("solang") && (file.starts_with("src/") || file.contains("/verif/"));
            if own {
                let msg = if let Some(s) = info.payload().downcast_ref::<&str>() {
                    s.to_string()
                } else if let Some(s) = info.payload().downcast_ref::<String>() {
                    s.clone()
                } else {
                    String::new()
                };
                if let Ok(mut g) = LAST_OWN_PANIC.lock() {
                    if g.is_none() {
                        *g = Some(format!("{}:{}: {}", file, loc.line(), msg));
                    }
                }
            } else if let Ok(mut g) = LAST_FOREIGN_PANIC.lock() {
                let msg = if let Some(s) = info.payload().downcast_ref::<&str>() { s.to_string() } else if let Some(s) = info.payload().downcast_ref::<String>() { s.clone() } else { String::new() };
                *g = Some(format!("{}:{}: {}", file, loc.line(), msg.chars().take(200).collect::<String>()));
            }
        }
    }));
    let args: Vec<String> = std::env::args().collect();
    let code = match std::panic::catch_unwind(|| real_main(&args)) {
        Ok(c) => c,
        Err(_) => {
            let what = LAST_OWN_PANIC.lock().ok().and_then(|g| g.clone()).unwrap_or_else(|| "panic outside the simulator's own sources".into());
            let foreign = LAST_FOREIGN_PANIC.lock().ok().and_then(|g| g.clone()).unwrap_or_default();
            say!("HARNESS: internal error (panic) {}; last panic outside the simulator's sources: {}", what, foreign);
            2
        }
    };
    std::process::exit(code);
}

fn real_main(args: &[String]) -> i32 {
    let cmd = args.get(1).map(|s| s.as_str()).unwrap_or("");
    match cmd {
        "check" => {
            let id = match args.get(2) {
                Some(i) => i.clone(),
                None => {
                    eprintln!("usage: sim check <id> [quick|thorough]");
                    return 2;
                }
            };
            let tier = match args.get(3).map(|s| s.as_str()) {
                Some("thorough") => Tier::Thorough,
                _ => match std::env::var("VERIF_TIER").as_deref() {
                    Ok("thorough") if args.get(3).is_none() => Tier::Thorough,
                    _ => Tier::Quick,
                },
            };
            let ctx = match ctx_from_env(tier) {
                Ok(c) => c,
                Err(e) => {
                    say!("HARNESS: {}", e);
                    return 2;
                }
            };
            let ps = props();
            match ps.iter().find(|p| p.id() == id) {
                Some(p) => framework::check(p.as_ref(), &ctx).exit_code,
                None => {
                    say!("HARNESS: unknown property {}", id);
                    2
                }
            }
        }
        "solo" | "c15-chain" | "c15-exec" => {
            let ctx = match ctx_from_env(Tier::Quick) {
                Ok(c) => c,
                Err(_) => return 2,
            };
            match (cmd, args.get(2), args.get(3)) {
                ("solo", Some(f), Some(l)) => c15::solo_main(&ctx, f, l),
                ("c15-chain", Some(d), Some(i)) => c15::chain_main(&ctx, d, i.parse().unwrap_or(0)),
                ("c15-exec", Some(f), _) => c15::exec_main(&ctx, f),
                _ => 2,
            }
        }
        "texts" => {
            // `sim texts <seed> <n>`: print n generated workload texts (for inspection)
            let seed: u64 = args.get(2).and_then(|s| s.parse().ok()).unwrap_or(1);
            let n: usize = args.get(3).and_then(|s| s.parse().ok()).unwrap_or(5);
            let mut rng = rng::Rng::new(seed);
            let mut screen = corpus::Screen::new();
            for i in 0..n {
                let t = screen.gen_text(&mut rng);
                say!("---- text {} ----\n{}", i, t);
            }
            say!("screened in {} out {}", screen.screened_in, screen.screened_out);
            // every fragment alone and every file-level item alone, under each pragma
            for pragma in 0..corpus::PRAGMAS.len() {
                for i in 0..corpus::FRAGS.len() {
                    let t = corpus::render(&corpus::TextSpec { pragma, contracts: vec![vec![i]], spdx: false, blank_lines: vec![1], clash: false, kinds: vec![], extras: vec![] });
                    if !screen.ok(&t) {
                        say!("fragment {} rejected under pragma {}", corpus::FRAGS[i].key, corpus::PRAGMAS[pragma]);
                    }
                }
                for e in 0..corpus::EXTRAS.len() {
                    let t = corpus::render(&corpus::TextSpec { pragma, contracts: vec![vec![0]], spdx: false, blank_lines: vec![1], clash: false, kinds: vec![], extras: vec![e as u8] });
                    if !screen.ok(&t) {
                        say!("extra {} rejected under pragma {}", e, corpus::PRAGMAS[pragma]);
                    }
                }
                for k in 1..4u8 {
                    let t = corpus::render(&corpus::TextSpec { pragma, contracts: vec![vec![0], vec![1, 5]], spdx: false, blank_lines: vec![1, 1], clash: false, kinds: vec![0, k], extras: vec![] });
                    if !screen.ok(&t) {
                        say!("kind {} rejected under pragma {}", k, corpus::PRAGMAS[pragma]);
                    }
                }
                if !screen.ok(&corpus::stuffed_text(pragma)) {
                    say!("stuffed text rejected under pragma {}", corpus::PRAGMAS[pragma]);
                }
            }
            0
        }
        "hashes" => {
            // `sim hashes <id> <n>`: per-stream trace hashes of the first n scenario streams
            let ctx = match ctx_from_env(Tier::Quick) {
                Ok(c) => c,
                Err(_) => return 2,
            };
            let id = args.get(2).cloned().unwrap_or_default();
            let n: u64 = args.get(3).and_then(|s| s.parse().ok()).unwrap_or(64);
            let ps = props();
            let p = match ps.iter().find(|p| p.id() == id) {
                Some(p) => p,
                None => return 2,
            };
            if let Err(e) = p.prepare(&ctx) {
                say!("HARNESS: {}", e);
                return 2;
            }
            let agg = framework::run_streams(p.as_ref(), &ctx, 0, n, None);
            p.finish(&ctx);
            for (i, h) in &agg.trace_hashes {
                say!("{} {:016x}", i, h);
            }
            // the real-binary engine: a few streams as well (results must not depend on the process,
            // the worker count or where the scratch trees happen to live)
            if let Some(bin) = simbin::bin_path() {
                let nb = simbin::budget(&id, false).min(24);
                if nb > 0 {
                    let label = format!("{}-simbin", id);
                    let pid = id.clone();
                    let b = framework::run_streams_with(&label, &ctx, 0, nb, None, &|_i, rng, screen| {
                        simbin::scenario(&pid, &ctx, &bin, rng, screen).unwrap_or_default()
                    });
                    for (i, h) in &b.trace_hashes {
                        say!("b{} {:016x}", i, h);
                    }
                }
            }
            0
        }
        "selftest" => selftest(),
        "replay" => {
            let path = match args.get(2) {
                Some(p) => p.clone(),
                None => return 2,
            };
            let ctx = match ctx_from_env(Tier::Quick) {
                Ok(c) => c,
                Err(e) => {
                    say!("HARNESS: {}", e);
                    return 2;
                }
            };
            let ps = props();
            let refs: Vec<&dyn Property> = ps.iter().map(|p| p.as_ref()).collect();
            framework::replay_file(&refs, &ctx, &path)
        }
        _ => {
            eprintln!("usage: sim check <id> [quick|thorough] | sim replay <file>");
            2
        }
    }
}

/// Determinism proof: for several VERIF_SEED values, every property's first N scenario streams
/// are executed in separate processes at worker counts 1 and 16 (and a second time at 16) and the
/// per-stream trace hashes (journals, decisions, results, report bytes) are compared.
fn selftest() -> i32 {
    let exe = match std::env::current_exe() {
        Ok(e) => e,
        Err(_) => return 2,
    };
    let n: u64 = std::env::var("SELFTEST_STREAMS")
        .ok()
        .and_then(|s| s.parse().ok())
        .unwrap_or(300);
    let seeds: Vec<u64> = vec![DEFAULT_SEED, 1, 2, 3, 7, 1234567];
    let ids: Vec<&'static str> = props().iter().map(|p| p.id()).collect();
    let mut bad = 0;
    let mut compared = 0u64;
    for seed in &seeds {
        for id in &ids {
            let streams = if *id == "C15" { n.min(40) } else { n };
            let run = |workers: &str| -> Option<String> {
                let o = std::process::Command::new(&exe)
                    .arg("hashes")
                    .arg(id)
                    .arg(streams.to_string())
                    .env("VERIF_SEED", seed.to_string())
                    .env("VERIF_WORKERS", workers)
                    .output()
                    .ok()?;
                if !o.status.success() {
                    return None;
                }
                Some(String::from_utf8_lossy(&o.stdout).to_string())
            };
            let a = run("1");
            let b = run("16");
            let c = run("16");
            match (a, b, c) {
                (Some(a), Some(b), Some(c)) => {
                    compared += 3 * streams;
                    if a != b || b != c {
                        bad += 1;
                        let diff = a
                            .lines()
                            .zip(b.lines().zip(c.lines()))
                            .filter(|(x, (y, z))| x != y || y != z)
                            .take(3)
                            .map(|(x, _)| x.to_string())
                            .collect::<Vec<_>>();
                        say!("selftest: {} seed {} NOT deterministic, e.g. streams {:?}", id, seed, diff);
                    } else {
                        say!("selftest: {} seed {}: {} streams identical at 1 worker, 16 workers, 16 workers again", id, seed, streams);
                    }
                }
                _ => {
                    bad += 1;
                    say!("selftest: {} seed {}: a hashes process failed", id, seed);
                }
            }
        }
    }
    say!("selftest: {} stream executions compared, {} property/seed pairs differ", compared, bad);
    if bad == 0 {
        0
    } else {
        2
    }
}
