#[macro_use]
mod out;
mod c03;
mod c11;
mod c13;
mod c14;
mod c15;
mod c16;
mod c18;
mod report;
mod synth;
mod corpus;
mod docs;
mod framework;
mod gen;
mod model;
mod pats;
mod rng;
mod run;
mod shrink;
mod simbin;
mod simenv;
mod world;

use framework::{Ctx, Property, Tier, DEFAULT_SEED};

fn props() -> Vec<Box<dyn Property>> {
    vec![
        Box::new(c03::C03),
        Box::new(c11::ReportProp { id: "C11" }),
        Box::new(c11::ReportProp { id: "C12" }),
        Box::new(c13::C13),
        Box::new(c14::C14),
        Box::new(c15::C15),
        Box::new(c16::C16),
        Box::new(c18::C18),
    ]
}

fn ctx_from_env(tier: Tier) -> Result<Ctx, String> {
    let seed = std::env::var("VERIF_SEED")
        .ok()
        .and_then(|s| s.trim().parse::<u64>().ok())
        .unwrap_or(DEFAULT_SEED);
    let verif_root = std::env::var("VERIF_ROOT").unwrap_or_else(|_| "/verif".to_string());
    Ok(Ctx {
        seed,
        tier,
        doc: docs::load()?,
        verif_root,
    })
}

fn main() {
    // expected failures inside solstat (panics, simulated exits) stay quiet
    out::init();
    std::panic::set_hook(Box::new(|_| {}));
    let args: Vec<String> = std::env::args().collect();
    let code = real_main(&args);
    std::process::exit(code);
}

fn real_main(args: &[String]) -> i32 {
    let cmd = args.get(1).map(|s| s.as_str()).unwrap_or("");
    match cmd {
        "check" => {
            let id = match args.get(2) {
                Some(i) => i.clone(),
                None => {
                    eprintln!("usage: sim check <id> [quick|thorough]");
                    return 2;
                }
            };
            let tier = match args.get(3).map(|s| s.as_str()) {
                Some("thorough") => Tier::Thorough,
                _ => match std::env::var("VERIF_TIER").as_deref() {
                    Ok("thorough") if args.get(3).is_none() => Tier::Thorough,
                    _ => Tier::Quick,
                },
            };
            let ctx = match ctx_from_env(tier) {
                Ok(c) => c,
                Err(e) => {
                    say!("HARNESS: {}", e);
                    return 2;
                }
            };
            let ps = props();
            match ps.iter().find(|p| p.id() == id) {
                Some(p) => framework::check(p.as_ref(), &ctx).exit_code,
                None => {
                    say!("HARNESS: unknown property {}", id);
                    2
                }
            }
        }
        "solo" | "c15-chain" | "c15-exec" => {
            let ctx = match ctx_from_env(Tier::Quick) {
                Ok(c) => c,
                Err(_) => return 2,
            };
            match (cmd, args.get(2), args.get(3)) {
                ("solo", Some(f), Some(l)) => c15::solo_main(&ctx, f, l),
                ("c15-chain", Some(d), Some(i)) => c15::chain_main(&ctx, d, i.parse().unwrap_or(0)),
                ("c15-exec", Some(f), _) => c15::exec_main(&ctx, f),
                _ => 2,
            }
        }
        "replay" => {
            let path = match args.get(2) {
                Some(p) => p.clone(),
                None => return 2,
            };
            let ctx = match ctx_from_env(Tier::Quick) {
                Ok(c) => c,
                Err(e) => {
                    say!("HARNESS: {}", e);
                    return 2;
                }
            };
            let ps = props();
            let refs: Vec<&dyn Property> = ps.iter().map(|p| p.as_ref()).collect();
            framework::replay_file(&refs, &ctx, &path)
        }
        _ => {
            eprintln!("usage: sim check <id> [quick|thorough] | sim replay <file>");
            2
        }
    }
}
