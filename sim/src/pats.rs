//! A uniform view of solstat's three pattern categories. Patterns are never named by variant
//! identifier here: they are obtained from the crate's own default lists and name tables and
//! compared with `==`, so a rename inside solstat cannot break or alarm the simulator.

use crate::simenv::{guarded, Abort};
use solstat::analyzer::optimizations::{self, Optimization};
use solstat::analyzer::qa::{self, QualityAssurance};
use solstat::analyzer::vulnerabilities::{self, Vulnerability};
use std::collections::{BTreeSet, HashMap};

#[derive(Clone, Copy, Debug, PartialEq, Eq, Hash, PartialOrd, Ord)]
pub enum Cat {
    Vul,
    Opt,
    Qa,
}

pub const CATS: [Cat; 3] = [Cat::Vul, Cat::Opt, Cat::Qa];

impl Cat {
    pub fn name(&self) -> &'static str {
        match self {
            Cat::Vul => "vulnerabilities",
            Cat::Opt => "optimizations",
            Cat::Qa => "qa",
        }
    }
    pub fn from_name(s: &str) -> Option<Cat> {
        CATS.iter().copied().find(|c| c.name() == s)
    }
}

#[derive(Clone, Copy, PartialEq, Eq, Hash)]
pub enum Pat {
    O(Optimization),
    V(Vulnerability),
    Q(QualityAssurance),
}

impl std::fmt::Debug for Pat {
    fn fmt(&self, f: &mut std::fmt::Formatter<'_>) -> std::fmt::Result {
        write!(f, "{}", self.label())
    }
}

impl Pat {
    pub fn cat(&self) -> Cat {
        match self {
            Pat::O(_) => Cat::Opt,
            Pat::V(_) => Cat::Vul,
            Pat::Q(_) => Cat::Qa,
        }
    }
    /// `<category letter>:<Debug text of the variant>`; used in replay files and messages only.
    pub fn label(&self) -> String {
        match self {
            Pat::O(o) => format!("O:{:?}", o),
            Pat::V(v) => format!("V:{:?}", v),
            Pat::Q(q) => format!("Q:{:?}", q),
        }
    }
    /// Debug text of the variant alone (what `SeamMap` sorts by).
    pub fn debug_key(&self) -> String {
        match self {
            Pat::O(o) => format!("{:?}", o),
            Pat::V(v) => format!("{:?}", v),
            Pat::Q(q) => format!("{:?}", q),
        }
    }
}

/// The patterns that run by default, per category, in the crate's own order.
pub fn defaults(cat: Cat) -> Vec<Pat> {
    match cat {
        Cat::Opt => optimizations::get_all_optimizations()
            .into_iter()
            .map(Pat::O)
            .collect(),
        Cat::Vul => vulnerabilities::get_all_vulnerabilities()
            .into_iter()
            .map(Pat::V)
            .collect(),
        Cat::Qa => qa::get_all_qa().into_iter().map(Pat::Q).collect(),
    }
}

/// The crate's name table; an unknown name panics inside solstat, which is reported as `Err`.
pub fn by_name(cat: Cat, name: &str) -> Result<Pat, Abort> {
    let name = name.to_string();
    match cat {
        Cat::Opt => guarded(move || Pat::O(optimizations::str_to_optimization(&name))),
        Cat::Vul => guarded(move || Pat::V(vulnerabilities::str_to_vulnerability(&name))),
        Cat::Qa => guarded(move || Pat::Q(qa::str_to_qa(&name))),
    }
}

/// snake_case of a CamelCase Debug text ("SafeMathPre080" -> "safe_math_pre_080",
/// "UnsafeERC20Operation" -> "unsafe_erc20_operation").
pub fn snake(debug: &str) -> String {
    let cs: Vec<char> = debug.chars().collect();
    let mut out = String::new();
    for (i, c) in cs.iter().enumerate() {
        if i > 0 {
            let p = cs[i - 1];
            let n = cs.get(i + 1).copied();
            let boundary = (c.is_ascii_uppercase()
                && (p.is_ascii_lowercase()
                    || (p.is_ascii_uppercase() && n.map_or(false, |n| n.is_ascii_lowercase()))))
                || (c.is_ascii_digit() && p.is_ascii_lowercase())
                || (c.is_ascii_uppercase() && p.is_ascii_digit());
            if boundary {
                out.push('_');
            }
        }
        out.push(c.to_ascii_lowercase());
    }
    out
}

/// Every pattern the simulator knows how to reach: the defaults plus whatever the documented
/// names select. Deduplicated, in a stable order.
pub fn universe(cat: Cat, documented: &[String]) -> Vec<Pat> {
    let mut v = defaults(cat);
    for n in documented {
        if let Ok(p) = by_name(cat, n) {
            if !v.contains(&p) {
                v.push(p);
            }
        }
    }
    v
}

pub fn from_label(label: &str, documented: &HashMap<Cat, Vec<String>>) -> Option<Pat> {
    for cat in CATS {
        let empty = vec![];
        let names = documented.get(&cat).unwrap_or(&empty);
        for p in universe(cat, names) {
            if p.label() == label {
                return Some(p);
            }
        }
    }
    None
}

/// One call of the real per-file analysis. Panics inside solstat come back as `Err`.
pub fn analyze_file(text: &str, file_no: usize, pat: Pat) -> Result<BTreeSet<i32>, Abort> {
    guarded(|| match pat {
        Pat::O(o) => optimizations::analyze_for_optimization(text, file_no, o),
        Pat::V(v) => vulnerabilities::analyze_for_vulnerability(text, file_no, v),
        Pat::Q(q) => qa::analyze_for_qa(text, file_no, q),
    })
}

/// One finding entry as the directory layer reports it.
#[derive(Clone, Debug, PartialEq, Eq, Hash, PartialOrd, Ord)]
pub struct Entry {
    pub pat: String,
    pub file: String,
    pub lines: Vec<i32>,
}

/// A findings map flattened, in the map's *own* entry order per pattern (patterns sorted by label).
pub type Flat = Vec<Entry>;

pub fn flatten_o(m: &HashMap<Optimization, Vec<(String, BTreeSet<i32>)>>) -> Flat {
    let mut out = vec![];
    let mut keys: Vec<&Optimization> = m.keys().collect();
    keys.sort_by_key(|k| format!("{:?}", k));
    for k in keys {
        for (f, l) in &m[k] {
            out.push(Entry {
                pat: Pat::O(*k).label(),
                file: f.clone(),
                lines: l.iter().copied().collect(),
            });
        }
    }
    out
}
pub fn flatten_v(m: &HashMap<Vulnerability, Vec<(String, BTreeSet<i32>)>>) -> Flat {
    let mut out = vec![];
    let mut keys: Vec<&Vulnerability> = m.keys().collect();
    keys.sort_by_key(|k| format!("{:?}", k));
    for k in keys {
        for (f, l) in &m[k] {
            out.push(Entry {
                pat: Pat::V(*k).label(),
                file: f.clone(),
                lines: l.iter().copied().collect(),
            });
        }
    }
    out
}
pub fn flatten_q(m: &HashMap<QualityAssurance, Vec<(String, BTreeSet<i32>)>>) -> Flat {
    let mut out = vec![];
    let mut keys: Vec<&QualityAssurance> = m.keys().collect();
    keys.sort_by_key(|k| format!("{:?}", k));
    for k in keys {
        for (f, l) in &m[k] {
            out.push(Entry {
                pat: Pat::Q(*k).label(),
                file: f.clone(),
                lines: l.iter().copied().collect(),
            });
        }
    }
    out
}

/// The three findings maps of one run, as solstat's own types (so they can be handed on to the
/// renderers) -- plus the flattened view the oracles read.
#[derive(Clone, Default)]
pub struct Maps {
    pub v: HashMap<Vulnerability, Vec<(String, BTreeSet<i32>)>>,
    pub o: HashMap<Optimization, Vec<(String, BTreeSet<i32>)>>,
    pub q: HashMap<QualityAssurance, Vec<(String, BTreeSet<i32>)>>,
}

impl Maps {
    pub fn flat(&self) -> Flat {
        let mut f = flatten_v(&self.v);
        f.extend(flatten_o(&self.o));
        f.extend(flatten_q(&self.q));
        f
    }
    pub fn flat_cat(&self, cat: Cat) -> Flat {
        match cat {
            Cat::Vul => flatten_v(&self.v),
            Cat::Opt => flatten_o(&self.o),
            Cat::Qa => flatten_q(&self.q),
        }
    }
    /// keys present whose entry list is empty (a shape `analyze_dir` never produces)
    pub fn empty_keys(&self) -> usize {
        self.v.values().filter(|x| x.is_empty()).count()
            + self.o.values().filter(|x| x.is_empty()).count()
            + self.q.values().filter(|x| x.is_empty()).count()
    }
    /// Build maps from flat entries in the given order (entry order per pattern is preserved).
    pub fn from_flat(entries: &[(Pat, String, Vec<i32>)]) -> Maps {
        let mut m = Maps::default();
        for (p, f, l) in entries {
            let set: BTreeSet<i32> = l.iter().copied().collect();
            match p {
                Pat::O(o) => m.o.entry(*o).or_insert_with(Vec::new).push((f.clone(), set)),
                Pat::V(v) => m.v.entry(*v).or_insert_with(Vec::new).push((f.clone(), set)),
                Pat::Q(q) => m.q.entry(*q).or_insert_with(Vec::new).push((f.clone(), set)),
            }
        }
        m
    }
}

/// Call the real directory walker of one category.
pub fn analyze_dir_cat(cat: Cat, dir: &str, pats: &[Pat], into: &mut Maps) {
    match cat {
        Cat::Vul => {
            let l: Vec<Vulnerability> = pats
                .iter()
                .filter_map(|p| if let Pat::V(v) = p { Some(*v) } else { None })
                .collect();
            into.v = vulnerabilities::analyze_dir(dir, l);
        }
        Cat::Opt => {
            let l: Vec<Optimization> = pats
                .iter()
                .filter_map(|p| if let Pat::O(o) = p { Some(*o) } else { None })
                .collect();
            into.o = optimizations::analyze_dir(dir, l);
        }
        Cat::Qa => {
            let l: Vec<QualityAssurance> = pats
                .iter()
                .filter_map(|p| if let Pat::Q(q) = p { Some(*q) } else { None })
                .collect();
            into.q = qa::analyze_dir(dir, l);
        }
    }
}

pub fn sorted(mut f: Flat) -> Flat {
    f.sort();
    f
}
