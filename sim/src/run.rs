//! One simulated run of solstat: the real `Opts::new`, the three real directory walkers and the
//! real `generate_report`, in `main`'s order, against a `SimEnv`.

use crate::pats::{analyze_dir_cat, Cat, Maps, Pat, CATS};
use crate::simenv::{with_env, Abort, Ev, Schedule, SimEnv};
use crate::world::World;
use serde_json::{json, Value};
use solstat::opts::Opts;
use solstat::report::generation::generate_report;
use std::collections::HashMap;

#[derive(Clone, Debug, PartialEq, Eq)]
pub enum Mode {
    /// through the real option parser, with this argv (program name included)
    Proc { argv: Vec<String> },
    /// straight into the walkers: directory as spelled by the caller, patterns per category
    Lib {
        dir: String,
        vul: Vec<Pat>,
        opt: Vec<Pat>,
        qa: Vec<Pat>,
    },
}

#[derive(Clone, Debug, PartialEq, Eq)]
pub struct RunSpec {
    pub world: World,
    pub schedule: Schedule,
    pub mode: Mode,
    /// call generate_report at the end (Proc mode always does)
    pub render: bool,
}

#[derive(Clone, Debug, PartialEq, Eq)]
pub struct OptsView {
    pub path: String,
    pub vul: Vec<Pat>,
    pub opt: Vec<Pat>,
    pub qa: Vec<Pat>,
}

impl OptsView {
    pub fn of(&self, cat: Cat) -> &Vec<Pat> {
        match cat {
            Cat::Vul => &self.vul,
            Cat::Opt => &self.opt,
            Cat::Qa => &self.qa,
        }
    }
}

#[derive(Clone, Copy, Debug, PartialEq, Eq, PartialOrd, Ord)]
pub enum Stage {
    Start,
    Opts,
    Vul,
    Opt,
    Qa,
    Report,
}

#[derive(Clone)]
pub struct Outcome {
    pub abort: Option<Abort>,
    /// last stage that completed
    pub stage: Stage,
    pub opts: Option<OptsView>,
    pub maps: Maps,
    pub journal: Vec<Ev>,
    pub world_after: World,
}

impl Outcome {
    pub fn status(&self) -> i32 {
        match &self.abort {
            None => 0,
            Some(a) => a.status(),
        }
    }
    pub fn ok(&self) -> bool {
        self.abort.is_none()
    }
    pub fn report_path(&self, spec_world: &World) -> String {
        crate::world::join(&spec_world.cwd, "solstat_report.md")
    }
    pub fn report_bytes(&self, spec_world: &World) -> Option<Vec<u8>> {
        self.world_after
            .file(&self.report_path(spec_world))
            .map(|(b, _)| b.clone())
    }
}

pub fn run(spec: &RunSpec) -> Outcome {
    let argv = match &spec.mode {
        Mode::Proc { argv } => Some(argv.clone()),
        Mode::Lib { .. } => None,
    };
    let env = SimEnv::new(spec.world.clone(), spec.schedule.clone(), argv);
    let mut stage = Stage::Start;
    let mut opts_view: Option<OptsView> = None;
    let mut maps = Maps::default();

    let res = with_env(&env, || {
        let (path, vul, opt, qa): (String, Vec<Pat>, Vec<Pat>, Vec<Pat>) = match &spec.mode {
            Mode::Proc { .. } => {
                let o = Opts::new();
                (
                    o.path,
                    o.vulnerabilities.into_iter().map(Pat::V).collect(),
                    o.optimizations.into_iter().map(Pat::O).collect(),
                    o.qa.into_iter().map(Pat::Q).collect(),
                )
            }
            Mode::Lib { dir, vul, opt, qa } => (dir.clone(), vul.clone(), opt.clone(), qa.clone()),
        };
        opts_view = Some(OptsView {
            path: path.clone(),
            vul: vul.clone(),
            opt: opt.clone(),
            qa: qa.clone(),
        });
        stage = Stage::Opts;
        // main()'s order: vulnerabilities, optimizations, qa, report
        analyze_dir_cat(Cat::Vul, &path, &vul, &mut maps);
        stage = Stage::Vul;
        analyze_dir_cat(Cat::Opt, &path, &opt, &mut maps);
        stage = Stage::Opt;
        analyze_dir_cat(Cat::Qa, &path, &qa, &mut maps);
        stage = Stage::Qa;
        let render = spec.render || matches!(spec.mode, Mode::Proc { .. });
        if render {
            generate_report(maps.v.clone(), maps.o.clone(), maps.q.clone());
            stage = Stage::Report;
        }
    });

    Outcome {
        abort: res.err(),
        stage,
        opts: opts_view,
        maps,
        journal: env.journal(),
        world_after: env.world(),
    }
}

pub fn pats_to_json(p: &[Pat]) -> Value {
    json!(p.iter().map(|x| x.label()).collect::<Vec<_>>())
}

pub fn pats_from_json(v: &Value, doc: &HashMap<Cat, Vec<String>>) -> Result<Vec<Pat>, String> {
    let mut out = vec![];
    for x in v.as_array().ok_or("pattern list")? {
        let l = x.as_str().ok_or("pattern label")?;
        out.push(crate::pats::from_label(l, doc).ok_or(format!("unknown pattern label {}", l))?);
    }
    Ok(out)
}

impl RunSpec {
    pub fn to_json(&self) -> Value {
        let mode = match &self.mode {
            Mode::Proc { argv } => json!({"kind": "proc", "argv": argv}),
            Mode::Lib { dir, vul, opt, qa } => json!({
                "kind": "lib", "dir": dir,
                "vulnerabilities": pats_to_json(vul),
                "optimizations": pats_to_json(opt),
                "qa": pats_to_json(qa),
            }),
        };
        json!({
            "world": self.world.to_json(),
            "schedule": self.schedule.to_json(),
            "mode": mode,
            "render": self.render,
        })
    }
    pub fn from_json(v: &Value, doc: &HashMap<Cat, Vec<String>>) -> Result<RunSpec, String> {
        let world = World::from_json(&v["world"])?;
        let schedule = Schedule::from_json(&v["schedule"]);
        let m = &v["mode"];
        let mode = match m["kind"].as_str() {
            Some("proc") => Mode::Proc {
                argv: m["argv"]
                    .as_array()
                    .ok_or("argv")?
                    .iter()
                    .map(|x| x.as_str().unwrap_or("").to_string())
                    .collect(),
            },
            Some("lib") => Mode::Lib {
                dir: m["dir"].as_str().ok_or("dir")?.to_string(),
                vul: pats_from_json(&m["vulnerabilities"], doc)?,
                opt: pats_from_json(&m["optimizations"], doc)?,
                qa: pats_from_json(&m["qa"], doc)?,
            },
            _ => return Err("mode.kind".into()),
        };
        Ok(RunSpec {
            world,
            schedule,
            mode,
            render: v["render"].as_bool().unwrap_or(false),
        })
    }

    pub fn pats(&self, cat: Cat) -> Vec<Pat> {
        match &self.mode {
            Mode::Lib { vul, opt, qa, .. } => match cat {
                Cat::Vul => vul.clone(),
                Cat::Opt => opt.clone(),
                Cat::Qa => qa.clone(),
            },
            Mode::Proc { .. } => vec![],
        }
    }

    /// Short description for evidence samples.
    pub fn sample(&self, out: &Outcome) -> Value {
        let mode = match &self.mode {
            Mode::Proc { argv } => json!({"argv": argv}),
            Mode::Lib { dir, vul, opt, qa } => json!({
                "dir": dir,
                "patterns": CATS.iter().map(|c| match c {
                    Cat::Vul => vul.len(), Cat::Opt => opt.len(), Cat::Qa => qa.len()
                }).collect::<Vec<_>>(),
            }),
        };
        let trace: Vec<String> = out
            .journal
            .iter()
            .filter(|e| {
                matches!(
                    e,
                    Ev::ReadDir { .. } | Ev::IterOrder { .. } | Ev::Write { .. } | Ev::Exit(_)
                ) || matches!(e, Ev::Read { outcome, .. } if !outcome.starts_with("ok"))
            })
            .take(24)
            .map(|e| e.render())
            .collect();
        json!({
            "cwd": self.world.cwd,
            "tree": self.world.listing(),
            "mode": mode,
            "decision_trace": trace,
            "status": out.status(),
            "findings": out.maps.flat().len(),
        })
    }
}
