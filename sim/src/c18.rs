//! C18 -- a run only reads its inputs and writes one report file. Histories of 1-4 consecutive
//! simulated process runs (through the real option parser) on one evolving world, with the
//! working directory unrelated to / parent of / equal to / child of the analysed directory and a
//! stale report (previous run's, foreign, empty, huge, findings-looking) possibly present.

use crate::c03;
use crate::corpus::Screen;
use crate::framework::{Ctx, Property, ScnResult, Tier, Violation};
use crate::gen::{self, CwdPlace, TreeKnobs, CWD_PLACES};
use crate::pats::{by_name, Cat, CATS};
use crate::report::Tables;
use crate::rng::{hash_str, mix, Rng};
use crate::run::{run, Mode, RunSpec};
use crate::simenv::{journal_hash, Ev, Schedule};
use crate::synth;
use crate::world::{join, Fault, Node, World};
use serde_json::{json, Value};

pub struct C18;

#[derive(Clone, Debug, PartialEq, Eq)]
pub struct Step {
    pub argv: Vec<String>,
    pub schedule: Schedule,
    /// applied to the world before the run: (absolute path, new bytes or None = delete)
    pub edits: Vec<(String, Option<Vec<u8>>)>,
}

#[derive(Clone, Debug, PartialEq, Eq)]
pub struct History {
    pub world: World,
    pub steps: Vec<Step>,
}

impl History {
    pub fn to_json(&self) -> Value {
        json!({
            "world": self.world.to_json(),
            "steps": self.steps.iter().map(|s| json!({
                "argv": s.argv,
                "schedule": s.schedule.to_json(),
                "edits": s.edits.iter().map(|(p, b)| match b {
                    Some(b) => match std::str::from_utf8(b) {
                        Ok(t) => json!({"path": p, "text": t}),
                        Err(_) => json!({"path": p, "hex": crate::world::hex(b)}),
                    },
                    None => json!({"path": p, "delete": true}),
                }).collect::<Vec<_>>(),
            })).collect::<Vec<_>>(),
        })
    }
    pub fn from_json(v: &Value) -> Result<History, String> {
        let world = World::from_json(&v["world"])?;
        let mut steps = vec![];
        for s in v["steps"].as_array().ok_or("steps")? {
            let mut edits = vec![];
            for e in s["edits"].as_array().unwrap_or(&vec![]) {
                let p = e["path"].as_str().ok_or("edit.path")?.to_string();
                let b = if e["delete"].as_bool() == Some(true) {
                    None
                } else if let Some(t) = e["text"].as_str() {
                    Some(t.as_bytes().to_vec())
                } else if let Some(h) = e["hex"].as_str() {
                    Some(crate::world::unhex(h)?)
                } else {
                    Some(vec![])
                };
                edits.push((p, b));
            }
            steps.push(Step {
                argv: s["argv"]
                    .as_array()
                    .ok_or("argv")?
                    .iter()
                    .map(|x| x.as_str().unwrap_or("").to_string())
                    .collect(),
                schedule: Schedule::from_json(&s["schedule"]),
                edits,
            });
        }
        Ok(History { world, steps })
    }
}

pub fn toml_text(path: &str, opt: &[String], vul: &[String], qa: &[String]) -> String {
    let q = |v: &[String]| {
        v.iter()
            .map(|s| format!("\"{}\"", s))
            .collect::<Vec<_>>()
            .join(", ")
    };
    format!(
        "# generated\npath = '{}'\n\noptimizations = [{}]\n\nvulnerabilities = [{}]\n\nqa = [{}]\n",
        path,
        q(opt),
        q(vul),
        q(qa)
    )
}

/// documented names the crate's name table accepts (C14 judges the others)
pub fn usable_names(ctx: &Ctx, cat: Cat) -> Vec<String> {
    ctx.doc
        .of(cat)
        .iter()
        .filter(|n| by_name(cat, n).is_ok())
        .cloned()
        .collect()
}

fn gen_toml(ctx: &Ctx, rng: &mut Rng, path: &str) -> String {
    let mut lists = vec![];
    for cat in [Cat::Opt, Cat::Vul, Cat::Qa] {
        let names = usable_names(ctx, cat);
        let mut v = match rng.below(3) {
            0 => names.clone(),
            1 => rng.subset(&names, 1, 2),
            _ => rng.subset(&names, 1, 5),
        };
        rng.shuffle(&mut v);
        lists.push(v);
    }
    toml_text(path, &lists[0], &lists[1], &lists[2])
}

pub const STALE_KINDS: [&str; 7] = [
    "none",
    "foreign_report",
    "empty",
    "huge",
    "findings_looking_text",
    "binary",
    "a_directory_with_that_name",
];

fn stale_bytes(kind: usize, rng: &mut Rng) -> Option<Vec<u8>> {
    match kind % 6 {
        0 => None,
        1 => {
            let t = Tables::build();
            let s = synth::Synth {
                entries: synth::gen_entries(rng, &t),
                iteration: Default::default(),
            };
            synth::render(&s).report.or(Some(b"# old report\n".to_vec()))
        }
        2 => Some(vec![]),
        3 => Some(vec![b'x'; 1 << 17]),
        4 => Some(b"## Old\n\n### Lines\n- ghost.sol:99\n- ghost.sol:100\n\n\n".to_vec()),
        _ => Some(vec![0xff, 0xfe, 0x00, 0x80, 0xc3]),
    }
}

fn gen_history(ctx: &Ctx, rng: &mut Rng, screen: &mut Screen) -> (History, CwdPlace, usize) {
    let mut world = World::new("/w");
    let mut k = TreeKnobs::draw(rng);
    k.inert_pct = *rng.pick(&[0, 0, 30]);
    k.min_eligible = rng.range(0, 2);
    let analysed = "/w/contracts";
    let mut info = gen::gen_tree(rng, screen, &mut world, analysed, &k);
    // now and then a tree whose report is several hundred kilobytes long (buffering, spooling and
    // chunking code paths only show beyond such sizes)
    let big = rng.chance(1, 200);
    if big {
        let t = crate::corpus::stuffed_text(rng.below(crate::corpus::PRAGMAS.len()));
        for i in 0..rng.range(110, 140) {
            let p = join(analysed, &format!("big/m{:03}.sol", i));
            world.put_file(&p, t.clone().into_bytes(), Fault::None);
            info.eligible.push(p);
        }
    }
    // sometimes a run is made to fail in the middle of the walk: an eligible file whose read fails,
    // or one the parser rejects (the file-system effects of a failing run are judged all the same)
    if !info.eligible.is_empty() {
        match rng.below(12) {
            0 => {
                let p = rng.pick(&info.eligible).clone();
                if let Some((b, _)) = world.file(&p).map(|(b, f)| (b.clone(), f)) {
                    world.put_file(&p, b, if rng.chance(1, 2) { Fault::Eio } else { Fault::Eacces });
                }
            }
            1 => {
                let p = rng.pick(&info.eligible).clone();
                world.put_file(&p, b"pragma solidity 0.8.16;\ncontract { broken ((\n".to_vec(), Fault::None);
            }
            _ => {}
        }
    }
    // bystanders that must stay untouched
    world.put_file("/w/README.md", b"readme\n".to_vec(), Fault::None);
    world.put_file("/home/u/notes.txt", b"notes\n".to_vec(), Fault::None);
    world.put_file("/w/contracts.bak/old.sol", b"pragma solidity 0.8.16;\ncontract Old {\n    function f() public {}\n}\n".to_vec(), Fault::None);
    let place = *rng.pick(&CWD_PLACES);
    let spelled = gen::place_cwd(rng, &mut world, analysed, place);
    let cwd = world.cwd.clone();
    // neighbours of the report in the working directory: names a careless prefix/suffix/case match
    // would confuse with it. They are bystanders and must survive every run untouched.
    for n in [
        "solstat_report.md.bak",
        "solstat_report.md~",
        "solstat_report.md.1.tmp",
        "solstat_report.md.orig",
        ".solstat_report.md.swp",
        "solstat_report.txt",
        "Solstat_Report.md",
        "old_solstat_report.md",
        "solstat_report",
    ] {
        if rng.chance(1, 3) {
            world.put_file(&join(&cwd, n), format!("keep me: {}\n", n).into_bytes(), Fault::None);
        }
    }
    if rng.chance(1, 10) {
        world.mkdir_p(&join(&cwd, "solstat_report.md.d"));
    }
    // configuration file?
    let use_toml = rng.chance(1, 2) || (big && rng.chance(1, 2));
    let toml_path = if rng.chance(1, 2) {
        join(&cwd, "cfg.toml")
    } else {
        "/w/conf/solstat.toml".to_string()
    };
    if use_toml {
        let mut t = gen_toml(ctx, rng, &spelled);
        if big {
            // the shape of the shipped sample: many optimisations, one vulnerability, no qa
            t = toml_text(&spelled, &usable_names(ctx, Cat::Opt), &usable_names(ctx, Cat::Vul)[..1].to_vec(), &[]);
        }
        world.put_file(&toml_path, t.into_bytes(), Fault::None);
    }
    let stale_kind = if rng.chance(1, 12) { 6 } else { rng.below(6) };
    if stale_kind == 6 {
        // the report's name is taken by a directory (with something in it)
        world.put_file(&join(&join(&cwd, "solstat_report.md"), "2023.md"), b"old\n".to_vec(), Fault::None);
    } else if let Some(b) = stale_bytes(stale_kind, rng) {
        world.put_file(&join(&cwd, "solstat_report.md"), b, Fault::None);
    }
    let mk_argv = |rng: &mut Rng| -> Vec<String> {
        let mut a = vec!["solstat".to_string()];
        let omit_path = place == CwdPlace::Parent && rng.chance(1, 2);
        let path_args = if omit_path {
            vec![]
        } else {
            vec![
                if rng.chance(1, 2) { "--path" } else { "-p" }.to_string(),
                spelled.clone(),
            ]
        };
        let toml_args = if use_toml {
            vec![
                if rng.chance(1, 2) { "--toml" } else { "-t" }.to_string(),
                toml_path.clone(),
            ]
        } else {
            vec![]
        };
        if rng.chance(1, 2) {
            a.extend(path_args);
            a.extend(toml_args);
        } else {
            a.extend(toml_args);
            a.extend(path_args);
        }
        a
    };
    let n_steps = rng.range(1, 4);
    let mut steps = vec![];
    // rank universe: every path that may exist, including the report
    let mut rank_world = world.clone();
    rank_world.put_file(&join(&cwd, "solstat_report.md"), vec![], Fault::None);
    rank_world.put_file(&join(analysed, "added.sol"), vec![], Fault::None);
    for i in 0..n_steps {
        let mut edits = vec![];
        if i > 0 {
            match rng.below(4) {
                0 => {
                    if !info.eligible.is_empty() {
                        let p = rng.pick(&info.eligible).clone();
                        edits.push((p, Some(screen.gen_text(rng).into_bytes())));
                    }
                }
                1 => edits.push((
                    join(analysed, "added.sol"),
                    Some(screen.gen_text(rng).into_bytes()),
                )),
                2 => {
                    if use_toml {
                        edits.push((
                            toml_path.clone(),
                            Some(gen_toml(ctx, rng, &spelled).into_bytes()),
                        ));
                    }
                }
                _ => {}
            }
        }
        let (schedule, _, _) = gen::gen_schedule(rng, &rank_world);
        let mut argv = mk_argv(rng);
        if rng.chance(1, 6) {
            // a run that is expected to fail: its file-system effects are judged all the same
            argv = match rng.below(4) {
                0 => vec!["solstat".into(), "--path".into(), "/w/does-not-exist".into()],
                1 => vec!["solstat".into(), "--bogus".into()],
                2 => vec!["solstat".into(), "--toml".into(), "/w/no-such.toml".into(), "--path".into(), spelled.clone()],
                _ => {
                    edits.push((
                        "/w/conf/bad.toml".to_string(),
                        Some(toml_text(&spelled, &["no_such_pattern".to_string()], &[], &[]).into_bytes()),
                    ));
                    vec!["solstat".into(), "--path".into(), spelled.clone(), "--toml".into(), "/w/conf/bad.toml".into()]
                }
            };
        }
        steps.push(Step {
            argv,
            schedule,
            edits,
        });
    }
    (History { world, steps }, place, stale_kind)
}

pub struct Judged {
    pub violation: Option<(String, String)>,
    pub runs: u64,
    pub steps: u64,
    pub trace: u64,
    pub decisions: Vec<u64>,
    pub mutating_calls: u64,
    pub stale_overwritten: u64,
    pub failed_runs: u64,
    pub big_reports: u64,
    pub states: Vec<u64>,
    pub sample: Option<Value>,
}

fn apply_edits(w: &mut World, edits: &[(String, Option<Vec<u8>>)]) {
    for (p, b) in edits {
        match b {
            Some(b) => w.put_file(p, b.clone(), Fault::None),
            None => {
                w.nodes.remove(p);
            }
        }
    }
}

pub fn judge(h: &History) -> Judged {
    let mut j = Judged {
        violation: None,
        runs: 0,
        steps: 0,
        trace: 0,
        decisions: vec![],
        mutating_calls: 0,
        stale_overwritten: 0,
        failed_runs: 0,
        big_reports: 0,
        states: vec![],
        sample: None,
    };
    let mut world = h.world.clone();
    let report_path = join(&world.cwd, "solstat_report.md");
    for (k, step) in h.steps.iter().enumerate() {
        apply_edits(&mut world, &step.edits);
        let spec = RunSpec {
            world: world.clone(),
            schedule: step.schedule.clone(),
            mode: Mode::Proc {
                argv: step.argv.clone(),
            },
            render: true,
        };
        let out = run(&spec);
        j.runs += 1;
        j.steps += out.journal.len() as u64 + 5;
        j.trace = mix(j.trace ^ journal_hash(&out.journal) ^ (out.status() as u64));
        j.decisions.push(c03::decision_hash(&out));
        j.mutating_calls += out.journal.iter().filter(|e| e.is_mutation()).count() as u64;
        if out.abort.is_some() {
            j.failed_runs += 1;
        }
        if k == 0 {
            j.sample = Some(json!({
                "steps": h.steps.len(),
                "first_run": spec.sample(&out),
                "stale_report_before": world.file(&report_path).map(|(b, _)| b.len()),
            }));
        }
        // (i) state: only <cwd>/solstat_report.md may differ
        let diff = world.diff(&out.world_after);
        let others: Vec<&String> = diff.iter().filter(|p| **p != report_path).collect();
        if !others.is_empty() {
            let writes: Vec<String> = out
                .journal
                .iter()
                .filter(|e| e.is_mutation())
                .map(|e| e.render())
                .collect();
            let p = others[0];
            let clause = if world.nodes.contains_key(p.as_str()) {
                if out.world_after.nodes.contains_key(p.as_str()) {
                    "existing_path_modified"
                } else {
                    "existing_path_removed"
                }
            } else {
                "extra_path_created"
            };
            j.violation = Some((
                clause.into(),
                format!(
                    "run #{} (argv {:?}, cwd {}, status {}) changed {:?} besides {}; mutating calls: {:?}",
                    k,
                    step.argv,
                    world.cwd,
                    out.status(),
                    others,
                    report_path,
                    writes
                ),
            ));
            return j;
        }
        // the report must be a plain file
        if out.world_after.is_dir(&report_path) && !world.is_dir(&report_path) {
            j.violation = Some((
                "report_is_not_a_file".into(),
                format!("run #{} left a directory at {}", k, report_path),
            ));
            return j;
        }
        // (ii) a successful run leaves a report
        if out.abort.is_none() && !out.world_after.is_file(&report_path) && !world.is_dir(&report_path) {
            j.violation = Some((
                "no_report_after_success".into(),
                format!("run #{} (argv {:?}) ended with status 0 but {} does not exist", k, step.argv, report_path),
            ));
            return j;
        }
        // (iii) overwrite, no influence: compare with the same run in a world without the stale report
        if world.is_file(&report_path) && out.abort.is_none() {
            let mut clean = spec.clone();
            clean.world.nodes.remove(&report_path);
            let out2 = run(&clean);
            j.runs += 1;
            j.steps += out2.journal.len() as u64 + 5;
            j.trace = mix(j.trace ^ journal_hash(&out2.journal).rotate_left(3));
            if out2.abort.is_none() {
                let a = out.report_bytes(&spec.world).unwrap_or_default();
                let b = out2.report_bytes(&clean.world).unwrap_or_default();
                j.stale_overwritten += 1;
                if a != b {
                    let old = world.file(&report_path).map(|(b, _)| b.clone()).unwrap_or_default();
                    let clause = if !old.is_empty() && a.len() == old.len() + b.len() && a.starts_with(&old) {
                        "report_appended_to_stale"
                    } else {
                        "stale_report_influenced_result"
                    };
                    j.violation = Some((
                        clause.into(),
                        format!(
                            "run #{} (argv {:?}, cwd {}): with a {}-byte solstat_report.md left by a previous run the new report has {} bytes; the identical run without it gives {} bytes",
                            k,
                            step.argv,
                            world.cwd,
                            old.len(),
                            a.len(),
                            b.len()
                        ),
                    ));
                    return j;
                }
            } else {
                j.violation = Some((
                    "stale_report_influenced_result".into(),
                    format!(
                        "run #{} succeeds with a stale solstat_report.md present but fails ({:?}) without it",
                        k, out2.abort
                    ),
                ));
                return j;
            }
        } else if world.is_file(&report_path) && out.abort.is_some() {
            // failing run: does it also fail without the stale report? (no influence either way)
            let mut clean = spec.clone();
            clean.world.nodes.remove(&report_path);
            let out2 = run(&clean);
            j.runs += 1;
            j.steps += out2.journal.len() as u64 + 5;
            if out2.abort.is_none() {
                j.violation = Some((
                    "stale_report_influenced_result".into(),
                    format!(
                        "run #{} fails ({:?}) with a stale solstat_report.md present but succeeds without it",
                        k, out.abort
                    ),
                ));
                return j;
            }
        }
        if let Some((b, _)) = out.world_after.file(&report_path) {
            if b.len() > 256 * 1024 {
                j.big_reports += 1;
            }
        }
        j.states.push(hash_str(71, &out.world_after.to_json().to_string()));
        world = out.world_after;
    }
    j
}

impl Property for C18 {
    fn id(&self) -> &'static str {
        "C18"
    }
    fn budget(&self, tier: Tier) -> u64 {
        match tier {
            Tier::Quick => 8_000,
            Tier::Thorough => 250_000,
        }
    }
    fn scenario(&self, ctx: &Ctx, _index: u64, rng: &mut Rng, screen: &mut Screen) -> ScnResult {
        let mut r = ScnResult::default();
        let (h, place, stale_kind) = gen_history(ctx, rng, screen);
        let j = judge(&h);
        r.evaluations = j.runs;
        r.steps = j.steps;
        r.fault(place.name(), 1);
        r.fault(&format!("stale_report_{}", STALE_KINDS[stale_kind]), 1);
        r.fault("rerun", (h.steps.len() as u64).saturating_sub(1));
        r.fault("stale_report_overwritten", j.stale_overwritten);
        r.count("mutating_env_calls_observed", j.mutating_calls);
        r.count("failed_runs", j.failed_runs);
        r.probe("cwd_equals_analysed_dir", place == CwdPlace::Equal);
        r.probe("stale_report_present", stale_kind != 0 || h.steps.len() > 1);
        r.probe("rerun_after_edit", h.steps.iter().skip(1).any(|s| !s.edits.is_empty()));
        r.probe("failed_run_observed", j.failed_runs > 0);
        r.probe("report_larger_than_256_KiB", j.big_reports > 0);
        r.interleavings.extend(j.decisions.iter().copied());
        r.states.extend(j.states.iter().copied());
        if stale_kind != 0 || h.steps.len() > 1 || place == CwdPlace::Equal {
            r.nontrivial.push(mix(
                hash_str(72, &h.world.to_json().to_string())
                    ^ j.decisions.iter().fold(0, |a, b| mix(a ^ b)),
            ));
        }
        r.mixin(j.trace);
        if rng.chance(1, 12) {
            r.sample = j.sample;
        }
        if let Some((clause, detail)) = j.violation {
            r.violations.push(Violation {
                clause,
                detail,
                replay: h.to_json(),
            });
        }
        r
    }
    fn replay(&self, _ctx: &Ctx, scn: &Value) -> Result<Option<Violation>, String> {
        let h = History::from_json(scn)?;
        Ok(judge(&h).violation.map(|(clause, detail)| Violation {
            clause,
            detail,
            replay: scn.clone(),
        }))
    }
    fn shrink(&self, _ctx: &Ctx, scn: &Value) -> Vec<Value> {
        let h = match History::from_json(scn) {
            Ok(h) => h,
            Err(_) => return vec![],
        };
        let mut out = vec![];
        // fewer steps
        for i in (0..h.steps.len()).rev() {
            if h.steps.len() > 1 {
                let mut g = h.clone();
                g.steps.remove(i);
                out.push(g.to_json());
            }
        }
        for i in 0..h.steps.len() {
            if !h.steps[i].edits.is_empty() {
                let mut g = h.clone();
                g.steps[i].edits.clear();
                out.push(g.to_json());
            }
        }
        // smaller world (keep cwd, every path named in argv, ./contracts)
        let mut prot = vec![h.world.cwd.clone(), h.world.resolve(std::path::Path::new("./contracts"))];
        for s in &h.steps {
            for a in s.argv.iter().skip(1) {
                if !a.starts_with('-') {
                    prot.push(h.world.resolve(std::path::Path::new(a)));
                }
            }
        }
        for w in crate::shrink::shrink_world(&h.world, &prot) {
            let mut g = h.clone();
            g.world = w;
            out.push(g.to_json());
        }
        // drop --toml
        for i in 0..h.steps.len() {
            if let Some(pos) = h.steps[i].argv.iter().position(|a| a == "--toml" || a == "-t") {
                let mut g = h.clone();
                g.steps[i].argv.drain(pos..pos + 2);
                out.push(g.to_json());
            }
        }
        let names: Vec<String> = h.world.nodes.keys().cloned().collect();
        for i in 0..h.steps.len() {
            for p in crate::shrink::shrink_policy(&h.steps[i].schedule.listing, &names) {
                let mut g = h.clone();
                g.steps[i].schedule.listing = p;
                out.push(g.to_json());
            }
            for p in crate::shrink::shrink_policy(&h.steps[i].schedule.iteration, &gen::all_pattern_keys()) {
                let mut g = h.clone();
                g.steps[i].schedule.iteration = p;
                out.push(g.to_json());
            }
        }
        for w in crate::shrink::shrink_contents(&h.world) {
            let mut g = h.clone();
            g.world = w;
            out.push(g.to_json());
        }
        out
    }
    fn required_probes(&self) -> Vec<&'static str> {
        vec![
            "cwd_equals_analysed_dir",
            "stale_report_present",
            "rerun_after_edit",
            "failed_run_observed",
            "report_larger_than_256_KiB",
        ]
    }
    fn rule(&self) -> String {
        "Each scenario is a history of 1-4 consecutive simulated process runs (real Opts::new with clap on a simulated argv, real walkers, real generate_report) on one evolving world: between runs an eligible file, an added file or the configuration file may change; the working directory is unrelated to / parent of / equal to / child of the analysed directory; a stale solstat_report.md (previous run's, foreign report, empty, 128 KiB, findings-looking text, binary) may pre-exist. After every run, successful or not: the world differs from the world before at most in <cwd>/solstat_report.md; a successful run leaves that file; and its bytes equal those of the identical run in a world without the stale report (overwrite, no append, no influence). Non-trivial = stale report present, or >=2 runs, or cwd = analysed directory; distinct = distinct hash of (initial world, decision traces). evaluations counts single simulated process runs incl. the differential twin.".into()
    }
    fn assumptions(&self) -> Vec<String> {
        vec![
            "the verdict rests on file-system state, not on which calls were made: a write-temp-then-rename implementation would pass".into(),
            "file-system effects made through fully-qualified std::fs paths bypass the in-memory Env; the simbin engine snapshots a real scratch tree around the real binary for that".into(),
            "failure or short write of the report itself is not injected (the property does not say what a torn report looks like)".into(),
        ]
    }
    fn components(&self) -> Value {
        json!({
            "real": ["opts::Opts::new incl. clap parsing and toml", "the three walkers", "generate_report"],
            "stubbed": ["std::fs -> in-memory world (every mutating call a program could make is modelled: write/append/create_new/remove/rename/create_dir)", "argv, cwd, process::exit", "the five lines of main() are mirrored by the driver"],
        })
    }
}
